#!/usr/bin/env python3
"""Rewrites the generated tables of DESIGN.md (between <!-- X-BEGIN --> / <!-- X-END --> markers)."""
import glob, json, os, re, subprocess
HERE = os.path.dirname(os.path.dirname(os.path.abspath(__file__)))


def first_line(path, default=''):
    if not os.path.exists(path):
        return default
    for l in open(path).read().splitlines():
        l = l.strip(' #*-')
        if len(l) > 20:
            return l[:230]
    return default


def seeded():
    rows = ['| id | property | change (from the sub-agent\'s notes) | caught by (quick checks, exit 1) | status |', '|---|---|---|---|---|']
    for d in sorted(glob.glob(os.path.join(HERE, 'seeded', '*'))):
        m = json.load(open(os.path.join(d, 'meta.json')))
        desc = first_line(os.path.join(d, 'notes.md')).replace('|', '/')
        st = m.get('status', 'live')
        cb = ', '.join(m.get('caught_by', [])) or ('—' if st == 'live' else 'n/a')
        rows.append(f"| {m['id']} | {m['property']} | {desc} | {cb} | {st} |")
    return '\n'.join(rows)


def known():
    k = json.load(open(os.path.join(HERE, 'known_findings.json')))
    rows = ['| id | family tag | properties | kinds attributed | mechanism |', '|---|---|---|---|---|']
    for f in k['findings']:
        rows.append(f"| {f['id']} | `{f['family']}` | {' '.join(f['properties'])} | {', '.join(f['kinds'])} | {f['mechanism']} |")
    rows.append('')
    rows.append('Fixed (from `known_findings.json`, suppress nothing):')
    rows.append('')
    for x in k['fixed']:
        rows.append('* ' + x)
    return '\n'.join(rows)


def fixes():
    out = subprocess.run(['git', '-C', '/repo', 'log', '--reverse', '--format=%h %s', 'b74b821..HEAD'], capture_output=True, text=True).stdout
    rows = ['| commit | subject |', '|---|---|']
    for l in out.strip().splitlines():
        h, s = l.split(' ', 1)
        rows.append(f'| {h} | {s} |')
    return '\n'.join(rows)


def main():
    p = os.path.join(HERE, 'DESIGN.md')
    s = open(p).read()
    for name, fn in (('SEEDED', seeded), ('KNOWN', known), ('FIXES', fixes)):
        b, e = f'<!-- {name}-BEGIN -->', f'<!-- {name}-END -->'
        if b in s and e in s:
            s = s[:s.index(b) + len(b)] + '\n' + fn() + '\n' + s[s.index(e):]
    open(p, 'w').write(s)


if __name__ == '__main__':
    main()
