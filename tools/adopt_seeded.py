#!/usr/bin/env python3
"""Adopt a sub-agent's seeded defect into /verif/seeded/<id>/ after validating it.
usage: tools/adopt_seeded.py <srcdir> <id> <property> [--props C01,C02] """
import json, os, shutil, subprocess, sys
VERIF = os.path.dirname(os.path.dirname(os.path.abspath(__file__)))
src, sid, prop = sys.argv[1], sys.argv[2], sys.argv[3]
props = prop
if '--props' in sys.argv:
    props = sys.argv[sys.argv.index('--props') + 1]
dst = os.path.join(VERIF, 'seeded', sid)
os.makedirs(dst, exist_ok=True)
for f in ('patch.diff', 'demo.py', 'notes.md'):
    if os.path.exists(os.path.join(src, f)):
        shutil.copy(os.path.join(src, f), os.path.join(dst, f))
subprocess.call([sys.executable, os.path.join(VERIF, 'tools', 'run_seeded.py'), dst, '--props', props])
r = json.load(open(os.path.join(dst, 'last_run.json')))
notes = open(os.path.join(dst, 'notes.md')).read() if os.path.exists(os.path.join(dst, 'notes.md')) else ''
meta = {
    'id': sid, 'property': prop,
    'needs_to_manifest': 'see notes.md',
    'validated': {'patch_applies': r.get('applies'), 'suite': r.get('suite'), 'suite_passed': r.get('suite_passed'),
                  'demo_rc_patched': r.get('demo_patched_rc'), 'demo_rc_clean': r.get('demo_clean_rc')},
    'what_was_run': 'tools/run_seeded.py: patch applied to a scratch git worktree of /repo HEAD (incl. fix: commits), baseline pytest suite, '
                    'demo.py on patched and clean tree, then ./check <prop> --tier quick with VERIF_REPO=<scratch>',
    'checks': r.get('checks'),
    'caught_by': sorted(p for p, c in r.get('checks', {}).items() if c['rc'] == 1),
}
json.dump(meta, open(os.path.join(dst, 'meta.json'), 'w'), indent=1)
os.remove(os.path.join(dst, 'last_run.json'))
print(json.dumps({k: meta[k] for k in ('id', 'property', 'validated', 'caught_by')}))
