#!/usr/bin/env python3
"""Run checks against seeded defects.

usage: tools/run_seeded.py <seeded-dir> [--props C01,C05] [--all] [--tier quick]

<seeded-dir> contains patch.diff, demo.py and (after validation) meta.json.  The patch is applied to
a scratch git worktree of /repo under /tmp (never to /repo itself); the baseline test-suite and the
demonstration are run there, then the selected checks with VERIF_REPO pointing at the scratch tree.
The worktree is removed afterwards.
"""
import json
import os
import re
import shutil
import subprocess
import sys
import time

VERIF = os.path.dirname(os.path.dirname(os.path.abspath(__file__)))
PY = '/venv/bin/python'
ALL = [f'C{i:02d}' for i in range(1, 21)]


def sh(cmd, cwd=None, env=None, timeout=3600):
    p = subprocess.run(cmd, shell=True, cwd=cwd, env=env, capture_output=True, text=True, timeout=timeout)
    return p.returncode, p.stdout + p.stderr


def main():
    d = os.path.abspath(sys.argv[1])
    props = None
    tier = 'quick'
    validate = True
    a = sys.argv[2:]
    i = 0
    while i < len(a):
        if a[i] == '--props':
            props = a[i + 1].split(',')
            i += 2
        elif a[i] == '--all':
            props = ALL
            i += 1
        elif a[i] == '--tier':
            tier = a[i + 1]
            i += 2
        elif a[i] == '--no-validate':
            validate = False
            i += 1
        else:
            i += 1
    meta_p = os.path.join(d, 'meta.json')
    meta = json.load(open(meta_p)) if os.path.exists(meta_p) else {}
    if props is None:
        props = [meta.get('property')] if meta.get('property') else ALL
    name = re.sub(r'[^A-Za-z0-9]', '_', d[-30:])
    scratch = f'/tmp/scr_{name}_{os.getpid()}'
    rc, out = sh(f'git -C /repo worktree add -q --detach {scratch} HEAD')
    if rc:
        print('cannot create worktree', out)
        return 2
    res = {'dir': d, 'checks': {}}
    try:
        rc, out = sh(f'git -C {scratch} apply {d}/patch.diff')
        if rc:
            print('PATCH DOES NOT APPLY', out[-500:])
            res['applies'] = False
            return 2
        res['applies'] = True
        if validate:
            rc, out = sh(f'{PY} -m pytest -q -p no:cacheprovider --timeout=900 2>&1 | tail -3', cwd=scratch)
            m = re.search(r'(\d+) passed', out)
            res['suite'] = out.strip().splitlines()[-1] if out.strip() else ''
            res['suite_passed'] = int(m.group(1)) if m else 0
            rc_demo, out_demo = sh(f'{PY} {d}/demo.py', cwd=scratch, timeout=600)
            res['demo_patched_rc'] = rc_demo
            rc_clean, out_clean = sh(f'{PY} {d}/demo.py', cwd='/repo', timeout=600)
            res['demo_clean_rc'] = rc_clean
            print(f"suite: {res['suite']} | demo patched rc={rc_demo} clean rc={rc_clean}")
        env = dict(os.environ)
        env['VERIF_REPO'] = scratch
        env['VERIF_TIER'] = tier
        for p in props:
            t0 = time.time()
            rc, out = sh(f'./check {p} --tier {tier}', cwd=VERIF, env=env, timeout=4 * 3600)
            kinds = sorted(set(re.findall(r'kind=(\w+)', out)))
            res['checks'][p] = {'rc': rc, 'kinds': kinds, 'wall': round(time.time() - t0, 1)}
            print(f'{p}: rc={rc} kinds={kinds[:8]} wall={time.time() - t0:.1f}s')
    finally:
        sh(f'git -C /repo worktree remove --force {scratch}')
        shutil.rmtree(scratch, ignore_errors=True)
        # evidence files were rewritten by runs against the scratch tree: restore committed versions
        sh('git checkout -- evidence', cwd=VERIF)
    out_p = os.path.join(d, 'last_run.json')
    json.dump(res, open(out_p, 'w'), indent=1)
    return 0


if __name__ == '__main__':
    sys.exit(main())
