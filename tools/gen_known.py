#!/usr/bin/env python3
"""Writes /verif/known_findings.json (committed; never written by checks at run time)."""
import json, os
HERE = os.path.dirname(os.path.dirname(os.path.abspath(__file__)))
RUNP = ['C01', 'C02', 'C03', 'C04', 'C05', 'C07', 'C08', 'C09', 'C10', 'C11', 'C12', 'C13', 'C14', 'C17']
GEN = ['wrong_value', 'missing_execution', 'value_instead_of_error', 'error_instead_of_value', 'wrong_error',
       'schedule_dependent_outcome', 'unexpected_args', 'wrong_arg_names', 'none_placeholder_arg', 'never_node_ran',
       'bad_arg_exception_instance', 'bad_arg_recurrent_marker', 'unexpected_default_call', 'missing_default_call',
       'over_execution', 'complete_count_ne_attempts', 'delivered_before_complete', 'mode_dependent_outcome']
HANG = ['deadlock', 'cancel_hangs']
C14K = ['node_start_twice_without_complete', 'node_complete_without_start', 'body_without_node_start', 'missing_node_complete',
        'complete_reports_error_for_value', 'complete_reports_success_for_failure', 'complete_reports_other_exception']
F = [
 dict(id='KF-REC2', family='rec_two_scopes', properties=RUNP,
      kinds=HANG + ['over_execution', 'delivered_before_complete', 'error_instead_of_value', 'wrong_error', 'wrong_value',
                    'missing_execution', 'unexpected_args', 'unexpected_default_call', 'missing_default_call',
                    'complete_count_ne_attempts', 'value_instead_of_error', 'schedule_dependent_outcome',
                    # a run that goes on after the exhaustion it should have failed with also runs the nodes behind it (thorough C09)
                    'never_node_ran'],
      mechanism='a recurrent subgraph that is inside two sub-pipeline scopes which are both active in the run, one of them a one-of candidate '
                '(e.g. consumed directly and through a candidate): whether a failure inside a re-iteration is contained (stored as a result) '
                'or raised is decided by the scope that happens to drive the subgraph; when the candidate drives it, the failure is stored, '
                'the subgraph is abandoned and the other scope waits for the destination forever (hang). The re-iteration hides the '
                '"processed" marks of the subgraph, so a scope that asks for the destination at that moment executes it once more '
                '(over-execution within one iteration; the surplus execution can use up max_iterations, so the run ends with a spurious '
                'RecurrentSubgraphDoesNotHaveResultError, or later iterations and their consumers see other arguments and values than the '
                'reference). Not attributed any more, i.e. reported if they return: None / exception / Recurrent placeholders as '
                'arguments, nodes that must never run, wrong case routing, lifecycle-grammar kinds. The None propagation that used to be listed here was repaired (D37).',
      witness={'C09': 'witnesses/KF-REC2.json', 'C02': 'witnesses/KF-REC2.json'}),
 dict(id='KF-RECINNER', family='rec_inner_sw', properties=RUNP + ['C19'],
      kinds=['never_node_ran', 'unexpected_args', 'over_execution', 'deadlock', 'cancel_hangs', 'unexpected_default_call',
             'wrong_arg_names', 'missing_default_call'],
      mechanism='the recurrent subgraph is built from the unfiltered graph (manager.py _run_recurrent_subgraph: get_connected_subgraph(self.dag.graph, ...)), '
                'so on every re-iteration all cases of a switch inside the subgraph are executed eagerly, selected or not',
      witness={'C09': 'witnesses/KF-RECINNER.json', 'C03': 'witnesses/KF-RECINNER.json'}),
 dict(id='KF-RECINNER-ONEOF', family='rec_inner_oneof', properties=RUNP + ['C19'],
      kinds=['never_node_ran', 'unexpected_args', 'over_execution', 'deadlock', 'cancel_hangs',
             'bad_arg_exception_instance', 'error_instead_of_value', 'wrong_error'],
      mechanism='same mechanism for a one-of inside a recurrent subgraph: on re-iteration every candidate is executed eagerly as an ordinary '
                'node of the subgraph (laziness and containment are lost)',
      witness={'C10': 'witnesses/KF-RECINNER-ONEOF.json'}),
 dict(id='KF-RECOUT', family='rec_outside_consumer', properties=['C12', 'C01', 'C03', 'C11', 'C07', 'C08', 'C09', 'C14'],
      kinds=['wrong_value', 'unexpected_args', 'missing_execution', 'schedule_dependent_outcome', 'missing_default_call',
             'unexpected_default_call', 'over_execution', 'never_node_ran', 'wrong_case_routed', 'value_instead_of_error',
             'error_instead_of_value', 'wrong_error', 'delivered_before_complete', 'saved_value_not_final'],
      mechanism='a node outside a recurrent subgraph that reads a node inside it without being ordered after the subgraph (it does not depend on '
                'the recurrent result): it is executed once, with the value of whichever iteration happened to be visible when it became ready '
                '(manager.py _is_ready_to_execute / hide_last_execution), and it is not re-executed; C03 asks for the final-iteration value. Everything '
                'computed from the stale value (labels of later switches, failures that depend on it) differs from the reference accordingly',
      witness={'C12': 'witnesses/KF-RECOUT.json'}),
 dict(id='KF-POOLWINDOW', family='bounded_pool', properties=RUNP + ['C19'], kinds=['queued_pool_job_started_in_cancel_window'],
      mechanism='run() ends by asking its helper tasks to cancel (manager.py run(), finally: _stop_coro_tasks) and does not wait for them: the '
                'cancellation reaches the future of loop.run_in_executor one loop iteration later, so a job that is still waiting in the queue of a '
                'thread / process pool with fewer workers than ready nodes can be picked up by a worker, and the node body starts, in that one '
                'iteration after run() has returned or raised. A pick-up later than that is reported as a violation (started_after_end). Reproduced on a '
                'real loop with ThreadPoolExecutor(max_workers=1): cd /repo && /venv/bin/python /verif/witnesses/KF-POOLWINDOW-real-demo.py (exit 1 = window observed)',
      witness={'C13': 'witnesses/KF-POOLWINDOW.json'}),
 dict(id='KF-STORE-REC', family='rec_iterates', properties=['C19', 'C08'],
      kinds=['recurrent_marker_saved', 'saved_more_than_once', 'write_once_store_failed_run'],
      mechanism='_run_node saves every intermediate result (manager.py 645-649, see the TODO): the Recurrent marker of the destination and '
                'the value of every re-executed node are saved once per iteration, so a write-once store fails a correct recurrent pipeline',
      witness={'C19': 'witnesses/KF-STORE-REC.json'}),
 dict(id='KF-STORE-CAND', family='cand_fail', properties=['C19', 'C08'],
      kinds=['exception_saved'],
      mechanism='the contained exception of a losing one-of candidate is saved as that node\'s artifact (manager.py 333-340 + 645-649)',
      witness={'C19': 'witnesses/KF-STORE-CAND.json'}),
]
for f in F:
    f['status'] = 'open'
FIXED = [
 'fixed: property=C17 9ab3495 a pipeline whose sync nodes are all tagged non_async (executed in place) failed with "thread pool is not registered" when no thread pool was registered: the builder counted such nodes as users of the thread pool (witnesses/D41.json)',
 'fixed: property=C02 9a8097c hang when a switch node returns an unhashable label (a list, a dict): TypeError in the case lookup killed the helper task of the switch and nobody was notified (witnesses/D40.json); also C09',
 'fixed: property=C03 126f370 a switch inside a recurrent subgraph kept the decision of the previous iteration: when the label changed, the consumer of the switch was started before the newly selected case had run and received None (witnesses/D39.json); also C01 C09 C11',
 'fixed: property=C09 b6e770f a switch case declared under a falsy label (\'\' or 0) was executed although another case was selected (witnesses/D38.json)',
 'fixed: property=C03 b55dc74 a node requested by a second sub-pipeline while a recurrent subgraph re-executed it (recurrent destination in two scopes, inner node read from outside): the hidden result was read as None, stored and delivered to consumers (witnesses/D37.json); also C01 C04 C09 C10 C11',
 'fixed: property=C02 a5a5236 hang when a node fails in a re-iteration of a recurrent subgraph consumed by an ordinary node of a switch case inside a one-of candidate (witnesses/D36.json)',
 'fixed: property=C02 bfae290 hang when a node body itself ends with asyncio.CancelledError (nobody cancelled the run): the cancelled helper task was skipped by the error scan (witnesses/D35.json)',
 'fixed: property=C02 8af1c59 a one-of candidate that is also consumed directly by another node: the direct consumer never became ready and the run hung (witnesses/D34.json); also C10 C03 C05',
 'fixed: property=C15 c19c0ea two parameters of one node bound to the same upstream node (or the same named switch) collapsed into one graph edge and only the last parameter was supplied (witnesses/D33.json, witnesses/D33-build.json); also C03',
 'fixed: property=C19 c62de43 a node result was published before its artifact save finished: with a slow store the save was cancelled at run end and the artifact lost (witnesses/D32.json)',
 'fixed: property=C17 b11c0fc a build_node() derivative tagged for the process pool killed the pool worker (method pickled under the wrong name) (witnesses/D31.json)',
 'fixed: property=C02 7b7a1b7 hang when a node needed outside a one-of had failed inside a one-of branch and the outside sub-pipeline had no task of its own for it (witnesses/D30.json); also C05 C09',
 'fixed: property=C10 17020fc the early exit of a failed one-of candidate cancelled node executions other sub-pipelines were waiting for: None delivered as a value (witnesses/D28.json); also C03 C05',
 'fixed: property=C11 fd8858b with a suspending artifact store a recurrent subgraph was iterated again after exhaustion by a late task of its destination (witnesses/D29.json)',
 'fixed: property=C02 87ebcb3 hang when a required node raises an exception whose instances are falsy (witnesses/D27.json); also C05',
 'fixed: property=C09 59cf84d hang when a switch case that is also consumed directly comes after the switch node in the launch order (witnesses/D26.json); also C02',
 'fixed: property=C09 dee09f8 hang when the selected switch case was already computed for another consumer (witnesses/D4.json); also C02',
 'fixed: property=C02 60096c3 hang: failure in a recurrent re-iteration consumed by a switch case inside a one-of candidate (witnesses/D25.json)',
 'fixed: property=C19 d9926cd a late duplicate request for an already executed node re-saved its result: a write-once store failed an otherwise correct run (witnesses/D24.json)',
 'fixed: property=C10 eeef9a0 a failure inside a switch case inside a one-of candidate: consumer invoked with the exception instance / hang (witnesses/D11.json); also C02 C03 C05',
 'fixed: property=C10 993066e started one-of candidates stayed visible in every later reduced DAG: healthy candidate declared failed, candidate executed by a foreign scope (witnesses/D21.json); also C01 C05',
 'fixed: property=C05 26f721c all-fail one-of in a switch case inside a candidate ended the whole run with OneOfDoesNotHaveResultError (witnesses/D22.json); also C10',
 'fixed: property=C05 5444997 failing node shared by a candidate and the main pipeline: exception delivered as a value, value returned although a required node failed (witnesses/D23.json); also C03 C10',
 'fixed: property=C05 c73cadd CancelledError escaped chart.run when a one-of early exit cancelled pending sibling tasks (witness witnesses/D5.json)',
 'fixed: property=C07 e9c5317 second run of a one-of fallback chart failed with the first candidate\'s error: is_oneof_child cleared on the shared graph (witnesses/D6.json)',
 'fixed: property=C07 5d63909 additional_data of a recurrent iteration leaked into the next run / other overlapping runs through the shared graph (witnesses/D7.json); also C08',
 'fixed: property=C07 81ef33b caller\'s input_kwargs dict gained an additional_data key (witnesses/D8.json)',
 'fixed: property=C02 dfab1b0 hang when a one-of candidate\'s sub-pipeline fails three or more hops above the candidate (witnesses/D1.json); also C10',
 'fixed: property=C18 00653a5 save(fmt=JSON) raised TypeError and left an empty file (witnesses/D16.json)',
 'fixed: property=C18 5d17513 a failed save left a partial file: key neither loadable nor savable (witnesses/D16b.json)',
 'fixed: property=C18 2a474be ids that are dotted prefixes of one another / contain glob metacharacters aliased each other (witnesses/D17.json)',
 'fixed: property=C20 b013883 GraphConfigImpl.generate raised ValueError for user-defined node_type strings (witnesses/D19.json)',
 'fixed: property=C02 0a7a7d0 hang when a one-of candidate returns None (witnesses/D2.json); also C10',
 'fixed: property=C02 226843a hang when a switch node returns a label without a case (witnesses/D3.json); also C09',
 'fixed: property=C02 09553b0 hang when a node fails during a recurrent re-iteration inside a one-of candidate (witnesses/D20.json)',
]
json.dump({'findings': F, 'fixed': FIXED}, open(os.path.join(HERE, 'known_findings.json'), 'w'), indent=1)
print('ok', len(F))
