#!/bin/bash
# usage: tools/calibrate.sh "<props>" "<seeds>" <dumpfile>   (reports everything: known findings ignored)
cd "$(dirname "$0")/.."
rm -f "$3"
for seed in $2; do for p in $1; do VERIF_NO_KNOWN=1 VERIF_DUMP="$3" VERIF_SEED=$seed ./check $p > /tmp/cal_${p}_$seed.log 2>&1; done; done
echo CALDONE
