#!/usr/bin/env python3
"""Builds witness cases of the open known findings and prints which finding kinds each produces
(run with PYTHONPATH=/verif:/repo /venv/bin/python)."""
import json, os, sys, collections
HERE = os.path.dirname(os.path.dirname(os.path.abspath(__file__)))
sys.path.insert(0, HERE)
from rv import cases, gen, refsem

def N(id, **kw):
    d = {'id': id, 'mode': 'inline', 'params': [], 'kind': 'plain', 'plan': {}}
    d.update(kw)
    return d

def prog(nodes, out):
    p = {'nodes': {n['id']: n for n in nodes}, 'order': [n['id'] for n in nodes], 'input': 'N0', 'output': out}
    p['tags'] = sorted(gen.analyze(p))
    return p

W = {}
# dup_param (D15; repaired as D33 - the witness lives on as witnesses/D33.json)
W['D33'] = dict(prog=prog([N('N0', plain_params=['x']), N('N1', params=[['a', ['in', 'N0']]]),
                              N('N2', params=[['p', ['in', 'N1']], ['q', ['in', 'N1']]])], 'N2'), store=False)
# rec_two_scopes (D10)
W['KF-REC2'] = dict(prog=prog([
    N('N0', plain_params=['x']),
    N('N3', params=[['a', ['in', 'N0']]], start_of=True, mode='async'),
    N('N6', params=[['a', ['in', 'N3']]], kind='dest', recurrent=True, plan={'start': 'N3', 'want_iter': 1}, mode='async'),
    N('N2', params=[['a', ['rec', 'N3', 'N6', 2]]]),
    N('N7', kind='decider', params=[['a', ['in', 'N0']]], plan={'labels': ['L0']}),
    N('N10', params=[['a', ['in', 'N2']]]),
    N('N1', params=[['a', ['in', 'N2']], ['b', ['sw', 'sw1', 'N7', [['L0', 'N10']]]]])], 'N1'), store=False)
# cand_fail_via_switch (D11)
W['KF-SWCAND'] = dict(prog=prog([
    N('N0', plain_params=['x']),
    N('N3', kind='decider', params=[['a', ['in', 'N0']]], plan={'labels': ['L0']}),
    N('N4', params=[['a', ['in', 'N0']]], plan={'fail': ['ALWAYS', 'E1']}),
    N('N2', params=[['a', ['sw', 'sw1', 'N3', [['L0', 'N4']]]]]),
    N('N5', params=[['a', ['in', 'N0']]]),
    N('N1', params=[['a', ['oneof', ['N2', 'N5']]]])], 'N1'), store=False)
# cand_fail_shared
W['KF-SHARED'] = dict(prog=prog([
    N('N0', plain_params=['x']),
    N('N3', params=[['a', ['in', 'N0']]], plan={'fail': ['ALWAYS', 'EOther']}, mode='async'),
    N('N7', params=[['a', ['in', 'N3']]], mode='async'),
    N('N10', params=[['a', ['in', 'N0']]]),
    N('N1', params=[['a', ['in', 'N3']], ['b', ['oneof', ['N7', 'N10']]]])], 'N1'), store=False)
# cand_after_losing_oneof
W['KF-LOSER'] = dict(prog=prog([
    N('N0', plain_params=['x']),
    N('N4', params=[['a', ['in', 'N0']]], plan={'fail': ['ALWAYS', 'E1']}),
    N('N5', params=[['a', ['in', 'N0']]]),
    N('N3', params=[['a', ['oneof', ['N4', 'N5']]]]),
    N('N7', params=[['a', ['in', 'N3']]], plan={'fail': ['ALWAYS', 'EOther']}),
    N('N9', params=[['a', ['in', 'N3']]]),
    N('N1', params=[['a', ['oneof', ['N7', 'N9']]]])], 'N1'), store=False)
# artifact store (D18): recurrent re-execution and contained failure
W['KF-STORE-REC'] = dict(prog=prog([
    N('N0', plain_params=['x']),
    N('N3', params=[['a', ['in', 'N0']]], start_of=True),
    N('N6', params=[['a', ['in', 'N3']]], kind='dest', recurrent=True, plan={'start': 'N3', 'want_iter': 1}),
    N('N1', params=[['a', ['rec', 'N3', 'N6', 2]]])], 'N1'), store=True)
W['KF-STORE-CAND'] = dict(prog=prog([
    N('N0', plain_params=['x']),
    N('N4', params=[['a', ['in', 'N0']]], plan={'fail': ['ALWAYS', 'E1']}),
    N('N5', params=[['a', ['in', 'N0']]]),
    N('N1', params=[['a', ['oneof', ['N4', 'N5']]]])], 'N1'), store=True)

if __name__ == '__main__':
    for name, w in W.items():
        seen = collections.Counter()
        best = None
        for seed in range(40):
            for mode in ('fifo', 'lifo', 'random', 'pct'):
                case = {'prog': w['prog'], 'runs': [['r0', 0]], 'ctl': {'seed': seed, 'mode': mode, 'eager': 0.3, 'batch': 2},
                        'gate_events': 0.3 if seed % 2 else 0.0, 'store': w['store']}
                res = cases.run_case(case)
                ks = sorted({(tuple(f['prop']), f['kind']) for f in res['findings']})
                for k in ks:
                    seen[k] += 1
                if ks and (best is None or len(ks) > best[0]):
                    best = (len(ks), case, res.get('dyn_tags'))
        print('==', name, w['prog']['tags'], 'dyn', best[2] if best else None)
        for k, v in seen.most_common():
            print('   ', v, k)
        if best:
            tags = sorted(set(w['prog']['tags']) | set(best[2] or []))
            json.dump({'id': name, 'engine': 'rv.props', 'tags': tags, 'hashseed': 0, 'case': best[1]},
                      open(os.path.join(HERE, 'witnesses', name + '.json'), 'w'), indent=1)
