#!/usr/bin/env python3
"""Re-validate every live seeded change against the current /repo HEAD and refresh meta.json.
usage: tools/seeded_matrix.py [--all-props]   (default: primary property + the ones that caught it before)"""
import glob, json, os, subprocess, sys
VERIF = os.path.dirname(os.path.dirname(os.path.abspath(__file__)))
allp = '--all-props' in sys.argv
only = [a for a in sys.argv[1:] if not a.startswith('--')]
for d in sorted(glob.glob(os.path.join(VERIF, 'seeded', '*'))):
    mp = os.path.join(d, 'meta.json')
    m = json.load(open(mp))
    if only and m['id'] not in only:
        continue
    if m.get('status') in ('obsolete', 'rejected'):
        continue
    props = [f'C{i:02d}' for i in range(1, 21)] if allp else sorted(set([m['property']] + m.get('caught_by', [])))
    subprocess.call([sys.executable, os.path.join(VERIF, 'tools', 'run_seeded.py'), d, '--props', ','.join(props)],
                    stdout=subprocess.DEVNULL)
    lr = os.path.join(d, 'last_run.json')
    if not os.path.exists(lr):
        m['validated'] = {'patch_applies': False}
        m['needs_attention'] = 'patch no longer applies to the current HEAD'
        print(m['id'], 'PATCH DOES NOT APPLY')
    else:
        r = json.load(open(lr))
        os.remove(lr)
        m['validated'] = {'patch_applies': r.get('applies'), 'suite': r.get('suite'), 'suite_passed': r.get('suite_passed'),
                          'demo_rc_patched': r.get('demo_patched_rc'), 'demo_rc_clean': r.get('demo_clean_rc')}
        m['checks'] = r.get('checks')
        m['caught_by'] = sorted(p for p, c in r.get('checks', {}).items() if c['rc'] == 1)
        m.pop('needs_attention', None)
        flag = '' if (m['caught_by'] and r.get('suite_passed') == 62 and r.get('demo_patched_rc') == 1 and r.get('demo_clean_rc') == 0) else '  <-- ATTENTION'
        print(m['id'], 'suite', r.get('suite_passed'), 'demo', r.get('demo_patched_rc'), r.get('demo_clean_rc'), 'caught_by', m['caught_by'], flag)
    json.dump(m, open(mp, 'w'), indent=1)
