#!/usr/bin/env python3
"""Regenerates /verif/MANIFEST.json from the table below."""
import json, os
HERE = os.path.dirname(os.path.dirname(os.path.abspath(__file__)))
T = {
 'C01': ('exploration', 'reference-model monitor on a virtual event loop',
         'Runs the unmodified engine on a virtual asyncio loop (real BaseEventLoop, substituted clock / selector / executors) over thousands of generated pipelines x inputs x seeded completion orders (random with batched delivery, PCT, fifo/lifo, starve-one, several PYTHONHASHSEEDs) and compares PipelineResult and every node invocation with an executable dataflow semantics evaluated on the program IR; additionally requires one outcome class per (program, input) across schedules. Held = no disagreement on the executions produced.', '3.3, 3.4, 4/C01'),
 'C02': ('fault_enumeration', 'exact quiescence oracle of the virtual loop under enumerated single-fault placements',
         'For each generated pipeline every single fault placement (node failure per node, first-k-attempt failures, BaseException outcomes incl. a body that ends with CancelledError itself, None/falsy returns, unknown switch labels incl. None / falsy ones, raising event callback at every call index, raising artifact save at every index; thorough: all pairs of failing nodes for small programs) is executed under several schedules incl. starve-one; the virtual loop decides "loop idle, nothing outstanding, run pending" exactly (deadlock) and bounds steps (livelock); plus fault-free larger programs with the targeted shapes of DESIGN 3.1.', '3.3, 4/C02'),
 'C03': ('exploration', 'per-invocation argument monitor against the reference semantics',
         'Every node-body invocation recorded by instrumented generated bodies (keyword set and provenance-term values) is matched against the reference\'s expected invocations for that run and recurrent epoch; exception instances, Recurrent markers, None placeholders, foreign-run values and surplus/missing keywords are reported.', '3.2, 3.4, 4/C03'),
 'C04': ('exploration', 'invocation-count monitor (exactly-once per epoch) under sharing-heavy programs and gated callbacks',
         'Counts body invocations per (node, argument set) against the reference\'s expected attempt counts on programs where nodes are shared between the main pipeline, switch and one-of sub-pipelines, with event callbacks that really suspend so that the check-then-act window of the duplicate-request guard is opened.', '4/C04'),
 'C05': ('exploration', 'error-identity monitor against admissible-cause sets',
         'For runs the reference says must fail, PipelineResult.error must be (by identity) an exception raised by a node body that is an admissible root cause, or the documented one-of / recurrent no-result error for the right construct; exceptions escaping chart.run, CancelledError nobody requested, lookup errors and values returned instead of errors are reported.', '3.4 A1, 4/C05'),
 'C06': ('exploration', 'level-hold schedule controller with a quiescent-point invariant + sibling rendezvous on the real default pools',
         'On random layered plain-Input DAGs the controller withholds every completion; at each quiescent point it asserts that every unfinished node of the minimal unfinished depth has a recorded start / executor submission, then releases one completion. In a fresh interpreter, on a real loop with the pools auto_init() creates, 5-8 thread-pool and 2-4 process-pool siblings must all be in flight together (barrier / marker files; a violation only if the rendezvous gave up with fewer bodies started than siblings).', '4/C06'),
 'C07': ('exploration', 'history-free reference + deep DAG snapshots over run sequences on one chart',
         'Sequences of 2-6 runs with varying inputs on one chart object: each run is compared with the reference (which has no history), and graph nodes/edges/attributes, node_map, class attributes and the caller\'s input_kwargs are snapshotted before and after.', '4/C07'),
 'C08': ('exploration', 'per-run reference monitor over overlapping runs with batched completion delivery',
         '2-5 chart.run tasks overlap on one virtual loop (optionally one is cancelled, optionally with a recording artifact store or a second chart sharing the node classes); run tags inside provenance terms make any cross-run value visible; each run must equal its solo reference outcome and invocations.', '4/C08'),
 'C09': ('exploration', 'reference-model monitor: selected-case routing and never-executed set',
         'Switch-heavy programs (nested, shared deciders, labels as functions of the input, unknown labels): consumer arguments must be the selected case\'s value and nodes needed only by non-selected cases must never record a body start.', '4/C09'),
 'C10': ('exploration', 'reference-model monitor: candidate order, laziness and containment',
         'One-of-heavy programs with failing subsets at any depth: the consumer must receive the first non-failing candidate, untried candidates\' private nodes must never start, contained failures must not surface or be delivered as values, all-fail must yield OneOfDoesNotHaveResultError for the right head.', '4/C10'),
 'C11': ('exploration', 'per-epoch invocation monitor for recurrent subgraphs',
         'Recurrent-heavy programs with requested iterations 0..max+1, default on/off: the multiset of (node, arguments incl. additional_data) invocations per epoch, get_default arguments, and the value delivered to destination consumers must equal the reference.', '4/C11'),
 'C12': ('exploration', 'enumerated retry configurations with exact virtual-time gaps',
         'All (attempts, delay, exceptions, use_default) x per-attempt outcome sequences (thorough: exhaustive over the listed domain; quick: stratified sample) on carrier DAGs in every execution mode: attempt counts, identical arguments per attempt, get_default arguments, virtual-time gap >= delay before each re-attempt, node outcome and per-attempt lifecycle events; carriers include a retried start node of a recurrent subgraph and a node shared by two one-of candidates; an execution that is not re-invoked although its policy demands it is reported (retry_abandoned).', '4/C12'),
 'C13': ('fault_enumeration', 'cancellation injected at every loop step + drain monitor',
         'For each program x schedule the caller\'s task is cancelled at every loop step of the uncancelled run; after the run task is done the loop is drained and any node start / submission / callback / save after that point, any pending task, any hang or any outcome other than CancelledError is reported; 60% of the base cases use bounded virtual pools, so that jobs still waiting in a pool queue when the run ends are observable.', '3.3, 4/C13'),
 'C14': ('exploration', 'lifecycle-event automaton merged with the body trace',
         'A recording event manager (callbacks suspend with seeded probability) is checked against the per-run grammar: start first and once, complete last and once with the returned result object, node_start/node_complete pairing per attempt, error flag consistent with the body outcome, no delivery of a value before its successful node_complete; 20% of the cases with an artifact store that raises at its k-th save (the event managers do not raise).', '4/C14'),
 'C15': ('exploration', 'independent IR->graph translator compared with build_dag output',
         'The built DAG (nodes, attributes, edges with kwarg_name / is_switch / case_branch, node_map identity, io ids, pool flags) must equal a relation computed directly from the declarations; rebuilt with permuted parameter order.', '4/C15'),
 'C16': ('exploration', 'single-defect injection at every reachable node',
         'Every valid generated program must build; every applicable (node, defect) pair out of 11 defect kinds must raise the documented error class, wherever the node is reached from (Input, case, decider, candidate, recurrent destination/start).', '4/C16'),
 'C17': ('exploration', 'real-loop / real-pool differential against the mode-free reference + registry-state probes in fresh interpreters',
         'Same declarations under 8 execution-mode assignments (incl. coroutines that carry a pool tag) on a real SelectorEventLoop with real thread and fork process pools must give the reference outcome; 110 registry states (pool missing / shut down / without manager x which pools the declarations need, incl. pipelines whose sync nodes are all non_async and need none) must fail fast with an error result and zero body invocations when a needed pool is not ready, and succeed otherwise.', '3.8, 4/C17'),
 'C18': ('exploration', 'model-based monitor (dict model) over random save/load histories on a real directory',
         'After every operation the result or exception class of FileSystemArtifactStore is compared with a dict keyed by (model, pipeline id, node id); adversarial ids (dotted prefixes, glob metacharacters), both formats, failed saves, several contexts in one directory.', '4/C18'),
 'C19': ('exploration', 'recording write-once artifact store vs reference final values',
         'A recording write-once store registered on the chart: every save is compared with the reference (one save per executed node, value = final value, no Recurrent marker, no exception instance, no failure caused by the store), incl. overlapping runs of one chart (artifacts under the right run id) and values that are not equal to themselves.', '4/C19'),
 'C20': ('exploration', 'independent projection of DAG.graph / node_map compared with the viewer config',
         'GraphConfigImpl.generate().as_dict() must equal a projection computed independently, serialise to JSON and leave the DAG snapshot unchanged, over programs with every mark kind, generics, custom / None node types and docstring variants.', '4/C20'),
}
NOTE = ('Trusted base: CPython 3.12 asyncio BaseEventLoop with substituted clock/selector/executors (faithfulness argument in DESIGN 3.3), '
        'the IR generator, the reference semantics (my reading of the statement; abstains where it is silent) and the instrumented generated node bodies. '
        'Violations on programs that carry the structural/dynamic tag of a listed known finding, with a listed kind, are attributed (KNOWN-FINDING), everything else is a VIOLATION.')
checks = []
for p, (lvl, tech, text, ref) in T.items():
    checks.append({
        'property_id': p,
        'quick_cmd': f'./check {p} --tier quick',
        'thorough_cmd': f'./check {p} --tier thorough',
        'evidence_file': f'evidence/{p}.json',
        'replay_cmd_template': './check replay {path}',
        'engine': 'rv',
        'level_claimed': {'category': lvl, 'text': text, 'design_ref': ref},
        'level_note': NOTE,
        'technique': 'runtime monitoring: ' + tech,
    })
m = {
 'version': 1,
 'setup_cmd': 'mkdir -p .deps .work evidence replays && /venv/bin/pip install -q --no-index --find-links /opt/veriftools/wheels --target .deps jsonschema >/dev/null 2>&1 || true',
 'hooks': {'guard': 'ML_PIPELINE_ENGINE_VERIF',
           'enable': 'no hooks were added to the repository: all observation points are generated node classes, collaborator classes accepted by the chart API, the event-loop boundary and harness-side wrappers; checks import the engine from the /repo working tree (VERIF_REPO overrides the path)',
           'baseline_off_cmd': 'cd /repo && /venv/bin/python -m pytest -ra -q -p no:cacheprovider --timeout=900 --continue-on-collection-errors',
           'source_commits': [], 'add_only': True},
 'engines': [{'name': 'rv', 'path': 'rv/', 'serves_properties': sorted(T),
              'kind_free_text': 'Python runtime-monitoring framework: virtual asyncio loop + schedule controller, IR generator, materialiser, reference dataflow semantics, offline monitors, real-loop engine, fs-store model, builder/viewer translators'}],
 'checks': checks,
 'not_applicable': [],
 'notes': 'Every property is decided by runtime monitoring (monitors over produced executions); no property is declared not applicable. Compiler sanitizers / race detectors are not used because the repository is pure single-threaded asyncio Python (DESIGN 5). Repository defects repaired by fix: commits and open known findings are listed in known_findings.json.',
}
json.dump(m, open(os.path.join(HERE, 'MANIFEST.json'), 'w'), indent=1)
print('written', len(checks))
