#!/usr/bin/env python3
"""Cross-check on a REAL event loop: for every fixed defect with a virtual witness, replay the witness's
completion order on a real loop against the commit just before its fix (scratch worktree), and for every
open known finding against the current tree.  Writes witnesses/REAL_LOOP_CROSSCHECK.md."""
import json, os, re, subprocess, sys
VERIF = os.path.dirname(os.path.dirname(os.path.abspath(__file__)))
k = json.load(open(os.path.join(VERIF, 'known_findings.json')))
rows = []
def run(repo, wfile, hashseed):
    env = dict(os.environ, PYTHONPATH=VERIF + ':' + repo, VERIF_REPO=repo, PYTHONHASHSEED=str(hashseed or 0),
               PYTHONDONTWRITEBYTECODE='1')
    p = subprocess.run(['/venv/bin/python', '-m', 'rv.realreplay', wfile], cwd=VERIF, env=env, capture_output=True,
                       text=True, timeout=300)
    line = [l for l in p.stdout.splitlines() if l.startswith(wfile)]
    return line[-1][len(wfile) + 2:] if line else 'ERROR ' + (p.stderr.strip().splitlines() or ['?'])[-1][:200]
for f in k['findings']:
    for w in sorted(set((f.get('witness') or {}).values())):
        j = json.load(open(os.path.join(VERIF, w)))
        if j.get('engine', 'rv.props') not in ('rv.props', 'rv.props2') or j['case'].get('what'):
            continue
        rows.append((f['id'], 'HEAD (open finding)', w, run('/repo', w, j.get('hashseed'))))
for line in k['fixed']:
    m = re.match(r'fixed: property=\S+ (\w+) .*\((witnesses/\S+?\.json)\)', line)
    if not m:
        continue
    commit, w = m.group(1), m.group(2)
    j = json.load(open(os.path.join(VERIF, w)))
    case = j.get('case', j)
    if 'prog' not in case and 'prog' in j:
        case = j      # early witness files store the case fields at top level
    if j.get('engine', 'rv.props') not in ('rv.props', 'rv.props2') or case.get('what') or case.get('sequential') \
            or case.get('shape') == 'seq' or 'prog' not in case:
        rows.append((w, commit + '^', w, 'not applicable (not a single-run virtual case)'))
        continue
    scratch = f'/tmp/xc_{commit}'
    subprocess.run(['git', '-C', '/repo', 'worktree', 'add', '-q', '--detach', scratch, commit + '^'], check=False)
    try:
        rows.append((os.path.basename(w)[:-5], commit + '^ (before the fix)', w, run(scratch, w, j.get('hashseed'))))
    finally:
        subprocess.run(['git', '-C', '/repo', 'worktree', 'remove', '--force', scratch], check=False)
out = ['# Real-loop cross-check of virtual witnesses', '',
       'Produced by `tools/crosscheck_real.py` (see `rv/realreplay.py`): the completion order of the virtual witness is',
       'replayed on a real `SelectorEventLoop` with real threads and real time; `AGREE` = the real run shows a finding of',
       'the same kind as the virtual run (a virtual deadlock corresponds to `hang_on_real_loop`, i.e. the run did not',
       'finish within 8 s of wall-clock time although every completion had been delivered).', '',
       '| finding / defect | tree | witness | result |', '|---|---|---|---|']
for r in rows:
    out.append('| ' + ' | '.join(x.replace('|', '/') for x in r) + ' |')
out += ['', 'Notes on the rows that do not AGREE:', '',
        '* D28: the defect needs the early-exit cancellation of a one-of branch to land while the node is suspended inside its',
        '  `on_node_complete` callback, in the same loop iteration in which the callback gate would have been released; the',
        '  approximate real replay (4 ms settling time between deliveries) does not hit that window.',
        '* KF-REC2 (residual hang): which of the two scopes drives the failing re-iteration is decided by the order of two',
        '  callbacks inside ONE loop iteration; the scripted replay reproduces the order of completions, not the order of',
        '  ready callbacks within an iteration, and on the real loop the main scope won (the run fails with the node error',
        '  instead of hanging). The virtual witness replays deterministically (`./check replay witnesses/KF-REC2.json`).',
        '* KF-POOLWINDOW: the real replay uses unbounded pools and no cancellation, so the window cannot occur there; the',
        '  mechanism is argued from CPython (`Task.cancel` -> `_fut_waiter.cancel()` -> `_call_check_cancel` via `call_soon`) and reproduced separately on a real loop with a one-worker thread pool: `cd /repo && /venv/bin/python /verif/witnesses/KF-POOLWINDOW-real-demo.py` (exit 1 = window observed).',
        '* Witnesses of sequence / overlap / store-on-disk / build-time / real-pool defects are not single virtual runs and',
        '  are listed as not applicable. Every other witness, including every deadlock, reproduces on the real loop.']
open(os.path.join(VERIF, 'witnesses', 'REAL_LOOP_CROSSCHECK.md'), 'w').write('\n'.join(out) + '\n')
print('\n'.join(out[-len(rows):]))
