#!/bin/bash
# usage: tools/sweep.sh "<props>" "<seeds>" [tier]  - runs the checks one after another and prints one line per run
cd "$(dirname "$0")/.."
tier=${3:-quick}
for s in $2; do
  for p in $1; do
    out=$(VERIF_SEED=$s ./check $p --tier $tier 2>&1); rc=$?
    echo "seed=$s $p rc=$rc $(echo "$out" | grep -c '^VIOLATION') viol :: $(echo "$out" | tail -1 | cut -c1-220)"
    if [ $rc -ne 0 ]; then mkdir -p /tmp/sweepfail; echo "$out" > /tmp/sweepfail/${p}_$s.log; cp -r replays /tmp/sweepfail/replays_${p}_$s 2>/dev/null; fi
  done
done
git checkout -- evidence
