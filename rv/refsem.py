"""Reference dataflow semantics over the IR (DESIGN.md 3.4, Appendix A).

Evaluates a program for one run input and produces
  * outcome: ('value', v) | ('error', causes) | ('raised', causes)   (causes = admissible set)
  * expected invocations: {(node, kwargs_key): ExpInv} with attempt counts and MUST / MAY class
  * expected default calls, delays, undecided notes.
The evaluator never looks at the built DAG.
"""
from __future__ import annotations

from rv import rt


def kkey(kwargs):
    return repr(sorted(kwargs.items(), key=lambda kv: kv[0]))


class ExpInv:
    __slots__ = ('node', 'kwargs', 'n', 'must', 'outcomes', 'defaulted', 'final', 'delays')

    def __init__(self, node, kwargs):
        self.node = node
        self.kwargs = kwargs
        self.n = 0              # expected number of body invocations
        self.must = False
        self.outcomes = []      # per attempt: ('raise', name) | ('ok', v) | ('next', d)
        self.defaulted = False
        self.final = None
        self.delays = 0


def exc_matches(name, names):
    cls = rt.EXC[name]
    return any(issubclass(cls, rt.EXC[n]) for n in names)


class Ref:
    def __init__(self, prog, run, val, extra_kwargs=None):
        self.prog = prog
        self.nodes = prog['nodes']
        self.run = run
        self.val = val
        self.memo = {}
        self.env = {}            # start node -> additional_data
        self.inv = {}            # (node, kkey) -> ExpInv
        self.inv_order = []
        self.attempt_ctr = {}
        self.resolved = {}       # node -> list of nodes actually used by its final evaluation
        self.defaults = []       # (node, kwargs)
        self.undecided = []
        self.input_kwargs = {'x': ('IN', run, val)}
        extra_kwargs = extra_kwargs or prog.get('extra_inputs')
        if extra_kwargs:
            self.input_kwargs.update(extra_kwargs)
        self.last_kwargs = {}
        self.epochs = {}         # node -> number of evaluations (executions)
        self.sub_cache = {}
        self.label_of = {}       # (consumer, pname) -> (label, case)
        self.winner_of = {}      # (consumer, pname) -> candidate
        self.rec_iters = {}      # dest -> iterations done
        self.must_nodes = set()
        self.rec_epoch = 0
        self.tried = []          # candidates evaluated
        self.losers = {}         # one-of consumer -> losing candidates
        self.tried_of = {}       # (consumer, pname) -> candidates evaluated, in order
        self.ctx = []            # stack of candidate ids being evaluated
        self.dyn = set()         # dynamic hostile-family tags (facts about program x input)
        self.fail_ctx = {}       # failed node -> set of candidate contexts it was demanded from

    # -- structure -----------------------------------------------------------------------
    def dep_nodes(self, nid, resolved_only=False):
        out = []
        for pname, m in self.nodes[nid].get('params', []):
            k = m[0]
            if k == 'in':
                out.append(m[1])
            elif k == 'sw':
                out.append(m[2])
                out.extend(c for _, c in m[3])
            elif k == 'oneof':
                out.extend(m[1])
            elif k == 'rec':
                out.append(m[2])
        return out

    def sub_nodes(self, start, dest):
        """Nodes on dependency paths start -> dest (static, all edges)."""
        key = (start, dest)
        if key in self.sub_cache:
            return self.sub_cache[key]
        # ancestors of dest (incl.)
        anc = set()
        st = [dest]
        while st:
            n = st.pop()
            if n in anc:
                continue
            anc.add(n)
            st.extend(self.dep_nodes(n))
        # descendants of start (incl.) within anc
        cons = {}
        for n in anc:
            for d in self.dep_nodes(n):
                cons.setdefault(d, []).append(n)
        desc = set()
        st = [start]
        while st:
            n = st.pop()
            if n in desc or n not in anc:
                continue
            desc.add(n)
            st.extend(cons.get(n, []))
        self.sub_cache[key] = desc
        return desc

    # -- evaluation ----------------------------------------------------------------------
    def run_program(self):
        # the input node always runs first: every node is ordered after it (implicit links)
        i = self.eval_node(self.prog['input'])
        out = self.eval_node(self.prog['output'])
        if i[0] == 'fail' and out[0] == 'ok':
            out = i
        elif i[0] == 'fail' and out[0] == 'fail':
            out = ('fail', out[1] | i[1])
        if out[0] == 'ok':
            self.outcome = ('value', out[1])
            self._mark_must(self.prog['output'])
            self._mark_must(self.prog['input'], extend=True)
        else:
            causes = out[1]
            if any(c[0] == 'fatal' for c in causes) and all(c[0] == 'fatal' for c in causes):
                self.outcome = ('raised', causes)
            else:
                self.outcome = ('error', causes)
        return self.outcome

    def _mark_must(self, root, extend=False):
        seen = set(self.must_nodes) if extend else set()
        st = [root]
        while st:
            n = st.pop()
            if n in seen:
                continue
            seen.add(n)
            st.extend(self.resolved.get(n, []))
        self.must_nodes = seen
        for (node, _), e in self.inv.items():
            if node in seen:
                e.must = True

    def _note_fail_ctx(self, nid):
        c = tuple(self.ctx)
        seen = self.fail_ctx.setdefault(nid, set())
        if seen and c not in seen and (c or any(seen)):
            # the same failing node is demanded from a candidate scope and from another scope
            if any(len(x) != len(c) or x != c for x in seen):
                self.dyn.add('cand_fail_shared')
        seen.add(c)

    def eval_node(self, nid):
        if nid in self.memo:
            if self.memo[nid][0] == 'fail':
                self._note_fail_ctx(nid)
            return self.memo[nid]
        node = self.nodes[nid]
        # A parameter may read a node inside a recurrent subgraph that another parameter (directly or
        # transitively) drives to completion: consumers see the FINAL iteration's value (C03), so the
        # parameters are re-read until no re-iteration happened while reading them.
        for _round in range(6):
            epoch0 = self.rec_epoch
            kwargs = {}
            causes = set()
            used = []
            # a node that declares Input(Dest) next to RecurrentSubGraph(dest_node=Dest) gets the FINAL value through
            # both parameters, whatever their order: the recurrent marks are resolved first
            for idx, (pname, m) in enumerate(node.get('params', [])):
                if m[0] == 'rec':
                    self.eval_mark(nid, idx, pname, m, [])
            for idx, (pname, m) in enumerate(node.get('params', [])):
                o = self.eval_mark(nid, idx, pname, m, used)
                if o[0] == 'ok':
                    kwargs[pname] = o[1]
                else:
                    causes |= o[1]
            if self.rec_epoch == epoch0:
                break
        self.resolved[nid] = used
        if nid == self.prog['input']:
            kwargs.update(self.input_kwargs)
        if node.get('dep_default'):
            kwargs['dd'] = ('DD', nid)      # build_node(dependencies_default=dict(dd=...)): an extra keyword
        if node.get('start_of') and self.env.get(nid) is not None and (node.get('plan') or {}).get('use_ad', True):
            kwargs['additional_data'] = self.env[nid]
        if causes:
            res = ('fail', frozenset(causes))
        else:
            res = self.invoke(nid, kwargs)
        self.memo[nid] = res
        if res[0] == 'fail':
            self._note_fail_ctx(nid)
        return res

    def eval_mark(self, consumer, idx, pname, m, used):
        k = m[0]
        if k == 'in':
            used.append(m[1])
            return self._as_arg(self.eval_node(m[1]))
        if k == 'sw':
            _, name, decider, cases = m
            used.append(decider)
            d = self.eval_node(decider)
            if d[0] != 'ok':
                if self.ctx:
                    self.dyn.add('cand_fail_via_switch')
                return self._as_arg(d)
            label = d[1]
            for lab, c in cases:
                try:
                    hit = (lab == label)
                except Exception:  # noqa: BLE001
                    hit = False
                if hit:
                    used.append(c)
                    self.label_of[(consumer, pname)] = (lab, c)
                    o = self._as_arg(self.eval_node(c))
                    if o[0] == 'fail' and self.ctx:
                        self.dyn.add('cand_fail_via_switch')
                    return o
            if self.ctx:
                self.dyn.add('cand_fail_via_switch')
            return ('fail', frozenset({('badlabel', consumer, pname)}))
        if k == 'oneof':
            for c in m[1]:
                self.tried.append(c)
                self.tried_of.setdefault((consumer, pname), [])
                if c not in self.tried_of[(consumer, pname)]:
                    self.tried_of[(consumer, pname)].append(c)
                self.ctx.append(c)
                try:
                    o = self.eval_node(c)
                finally:
                    self.ctx.pop()
                if o[0] == 'fail' and any(cc[0] == 'fatal' for cc in o[1]):
                    # a BaseException is not a failure a one-of contains: it ends the run
                    return o
                if o[0] != 'ok':
                    self.losers.setdefault(consumer, []).append(c)
                if o[0] == 'ok':
                    used.append(c)
                    self.winner_of[(consumer, pname)] = c
                    return o
            return ('fail', frozenset({('oneof', consumer, idx)}))
        if k == 'rec':
            _, start, dest, mx = m
            used.append(dest)
            o = self.eval_rec(start, dest, mx)
            if o[0] == 'fail' and self.ctx:
                self.dyn.add('cand_fail_in_rec')
            return o
        raise ValueError(k)

    @staticmethod
    def _as_arg(o):
        if o[0] == 'next':
            # a Recurrent marker can never be an argument: consumer of a dest through a plain
            # Input sees whatever the Rec evaluation left; treated as undecided by callers
            return ('fail', frozenset({('recurrent_as_input',)}))
        return o

    def eval_rec(self, start, dest, mx):
        out = self.eval_node(dest)
        if dest in self.rec_iters:          # already driven to completion by another consumer
            return self._as_arg(self.memo[dest])
        it = 0
        sub = self.sub_nodes(start, dest)
        while out[0] == 'next' and it < mx:
            for n in sub:
                self.memo.pop(n, None)
                if n != dest:
                    self.rec_iters.pop(n, None)     # nested subgraphs iterate again in every outer iteration
            self.env[start] = out[1]
            self.rec_epoch += 1
            out = self.eval_node(dest)
            it += 1
        self.rec_iters[dest] = it
        if out[0] == 'next':
            node = self.nodes[dest]
            if (node.get('retry') or {}).get('use_default'):
                kw = self.last_kwargs[dest]
                self.defaults.append((dest, kw))
                out = ('ok', rt.default_value(node, kw))
            else:
                out = ('fail', frozenset({('rec', dest)}))
            self.memo[dest] = out
        return out

    def invoke(self, nid, kwargs):
        node = self.nodes[nid]
        self.last_kwargs[nid] = kwargs
        self.epochs[nid] = self.epochs.get(nid, 0) + 1
        key = (nid, kkey(kwargs))
        e = self.inv.get(key)
        if e is None:
            e = self.inv[key] = ExpInv(nid, kwargs)
            self.inv_order.append(key)
        r = node.get('retry') or {}
        attempts = r.get('attempts') or 1
        excs = r.get('exceptions') or ['Exception']
        use_default = bool(r.get('use_default'))
        made = 0
        while True:
            a = self.attempt_ctr.get(key, 0)
            self.attempt_ctr[key] = a + 1
            out = rt.behave(node, kwargs, a, self.run)
            e.n += 1
            e.outcomes.append(out)
            made += 1
            if out[0] != 'raise':
                e.final = out
                return out
            name = out[1]
            if exc_matches(name, excs):
                if made == attempts:
                    if use_default:
                        return self._default(e, nid, kwargs)
                    return self._fail(e, nid, a, name)
                e.delays += 1
                continue
            if issubclass(rt.EXC[name], Exception):
                if use_default:
                    return self._default(e, nid, kwargs)
                return self._fail(e, nid, a, name)
            return self._fail(e, nid, a, name)

    def _default(self, e, nid, kwargs):
        if self.nodes[nid].get('dep_default'):
            # dependencies_default of build_node() is added by the generated process wrapper: get_default is called
            # by the engine with the arguments the engine itself supplies
            kwargs = {k: v for k, v in kwargs.items() if k != 'dd'}
        e.defaulted = True
        self.defaults.append((nid, kwargs))
        out = ('ok', rt.default_value(self.nodes[nid], kwargs))
        e.final = out
        return out

    def _fail(self, e, nid, attempt, name):
        kind = 'boom' if issubclass(rt.EXC[name], Exception) else 'fatal'
        out = ('fail', frozenset({(kind, nid, attempt, name)}))
        e.final = out
        return out


def _anc(prog_nodes, r, nid):
    seen = set()
    st = [nid]
    while st:
        n = st.pop()
        for d in r.dep_nodes(n):
            if d not in seen:
                seen.add(d)
                st.append(d)
    return seen


def evaluate(prog, run, val, extra_kwargs=None):
    r = Ref(prog, run, val, extra_kwargs)
    r.run_program()
    if any(v > 0 for v in r.rec_iters.values()) or any(o[0] == 'next' for e in r.inv.values() for o in e.outcomes):
        # a destination asked for another iteration at least once (with max_iterations=0 none is granted, but the
        # Recurrent marker has been produced - and saved - all the same)
        r.dyn.add('rec_iterates')
    if r.losers:
        r.dyn.add('cand_fail')
    if r.losers:
        for c in r.tried:
            a = _anc(prog['nodes'], r, c)
            if any(cons in a for cons in r.losers):
                r.dyn.add('cand_after_losing_oneof')
                break
    if not hasattr(r, 'must_nodes'):
        r.must_nodes = set()
    return r
