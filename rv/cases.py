"""Case = (program, runs, schedule parameters, collaborators).  run_case executes it on the virtual
loop and applies every monitor; the result is a list of findings plus counters."""
from __future__ import annotations

import asyncio
import hashlib
import json
import random

from rv import gen, harness, materialize, monitors, refsem, vloop


def ctl_from(spec, prog=None):
    spec = dict(spec or {})
    dfs_prefix = spec.pop('dfs_prefix', None)
    if spec.get('mode') == 'dfs':
        spec['eager'] = 0.0
        spec['batch'] = 1
    starve = spec.pop('starve', None)
    hold = spec.pop('hold', None)
    cancel_at = spec.pop('cancel_at', None)
    if cancel_at:
        cancel_at = {int(k): v for k, v in cancel_at.items()}
    fn = None
    if starve:
        node = starve.get('node')
        kind = starve.get('kind')

        def fn(g, node=node, kind=kind):
            if node is not None and node not in g.key and f'processor__{node}' not in g.key:
                return False
            if kind is not None and g.key[0] != kind:
                return False
            return True
    script = spec.pop('script', None)
    if script is not None:
        script = {int(s): [tuple(a) if isinstance(a, list) else a for a in acts] for s, acts in script}
    ctl = vloop.Controller(starve=fn, cancel_at=cancel_at, script=script, **spec)
    ctl.dfs_prefix = dfs_prefix
    return ctl


def snapshot_dag(dag):
    g = dag.graph
    nodes = [(n, sorted((str(k), repr(v)) for k, v in d.items())) for n, d in g.nodes(data=True)]
    edges = [(u, v, sorted((str(k), repr(x)) for k, x in d.items())) for u, v, d in g.edges(data=True)]
    nm = sorted((k, v.__name__) for k, v in dag.node_map.items())
    cls = []
    for k, v in sorted(dag.node_map.items()):
        cls.append((k, sorted((a, repr(b)) for a, b in vars(v).items()
                              if not a.startswith('__') and not callable(b))))
    return {'nodes': nodes, 'edges': edges, 'node_map': nm, 'cls': cls,
            'io': (dag.input_node, dag.output_node, dag.is_process_pool_needed, dag.is_thread_pool_needed)}


def case_id(case):
    return hashlib.sha1(json.dumps(case, sort_keys=True, default=str).encode()).hexdigest()[:16]


def run_case(case, built=None, keep_obs=False):
    """Execute a virtual case.  Returns dict(findings, stats[, obs])."""
    prog = case['prog']
    own = built is None
    if own:
        built = harness.Built(prog, events=case.get('events', True), store=case.get('store', False),
                              events2=case.get('events2', False))
    if built.build_error is not None:
        if own:
            built.close()
        return {'findings': [monitors.F(['C16', 'C15'], 'valid_program_rejected',
                                        err=repr(built.build_error)[:300])], 'stats': {}, 'refs': {}}
    # unnamed switches get uuid-suffixed ids: make them a function of the program so that replays are exact
    harness.reseed_uuid(int(materialize.prog_hash(prog)[:8], 16))
    if not own or case.get('fresh', True):
        built.events2 = case.get('events2', getattr(built, 'events2', False))
        built.fresh(events=case.get('events', True), store=case.get('store', False))
    ctl = ctl_from(case.get('ctl'))
    harness.COUNTERS['dup_request'] = 0
    shape = case.get('shape', 'single')
    runs = [tuple(r) for r in case['runs']]
    snap_before = snapshot_dag(built.dag) if shape == 'seq' or case.get('snapshot') else None
    outputs = case.get('outputs') or [None] * len(runs)
    charts = [built.chart_for(o, events=case.get('events', True), store=case.get('store', False)) if o else None
              for o in outputs]
    obs = harness.execute(
        built, runs, ctl, charts=charts,
        gate_events=case.get('gate_events', 0.0), gate_saves=case.get('gate_saves', 0.0),
        write_once=case.get('write_once', True),
        collab_faults={(c, k): True for c, k in case.get('collab_faults', [])},
        start_gated=case.get('start_gated', False), sequential=(shape == 'seq'), pool_cap=case.get('pool_cap'),
        shared_meta=case.get('shared_meta', False), gate_events2=case.get('gate_events2', 0.0))
    findings = []
    findings += monitors.check_termination(obs)
    fd, ndisp = monitors.check_dispatch(obs, prog)
    findings += fd
    findings += monitors.check_instances(obs.trace)
    guards = monitors.lazy_guards(prog)
    refs = {}
    stats = {'steps': obs.steps, 'choice_points': obs.choice_points, 'quiescent': obs.quiescent_points,
             'kwargs_cmp': 0, 'invocations': 0, 'retry_gaps': 0, 'sched_len': len(obs.sched),
             'max_pending': obs.max_pending, 'post_end_released': ctl.post_end_released,
             'cancel_delivered': 0, 'trace_len': len(obs.trace)}
    cancelled = obs.cancelled_steps
    stats['dup_request'] = harness.COUNTERS.get('dup_request', 0)
    if ctl.mode == 'dfs':
        stats['dfs_record'] = list(ctl.dfs_record)
    stats['cancel_inflight'] = sum(1 for g, t in ctl.cancel_info.values() if g > 0 or t > 0)
    faults = bool(case.get('collab_faults'))
    prog0 = prog
    for i, ro in enumerate(obs.runs):
        prog = prog0 if not outputs[i] else dict(prog0, output=outputs[i])
        guards = monitors.lazy_guards(prog) if outputs[i] else guards
        ref = refsem.evaluate(prog, ro.tag, ro.val)
        refs[ro.tag] = ref
        was_cancelled = i in cancelled if shape != 'seq' else (0 in cancelled)
        if was_cancelled:
            stats['cancel_delivered'] += 1
            if ro.outcome is not None and not (ro.outcome == 'raised'
                                               and isinstance(ro.raised, asyncio.CancelledError)):
                findings.append(monitors.F(['C13'], 'cancel_not_surfaced_as_cancelled',
                                           outcome=ro.outcome, err=repr(ro.raised or ro.error)[:200]))
            if obs.verdict:
                findings.append(monitors.F(['C13'], 'cancel_hangs', verdict=obs.verdict))
        elif faults:
            pass    # collaborator faults: only termination (C02) and post-end (C13) are judged
        else:
            findings += monitors.check_outcome(obs, ro, ref)
        if not faults:
            f2, ncmp = monitors.check_invocations(obs, ro, ref, prog, guards)
            findings += f2
            stats['kwargs_cmp'] += ncmp
            findings += monitors.check_defaults(obs, ro, ref) if not was_cancelled else []
            f3, ngap = monitors.check_retry_timing(obs, ro, prog)
            findings += f3
            stats['retry_gaps'] += ngap
            if case.get('events', True):
                findings += monitors.check_events(obs, ro, ref, prog, cancelled=was_cancelled)
                findings += monitors.check_second_manager(obs, ro, cancelled=was_cancelled)
            if case.get('store') and not was_cancelled:
                findings += monitors.check_saves(obs, ro, ref, prog)
        if faults and not was_cancelled and case.get('events2') \
                and not all(name == 'save' for name, _ in case.get('collab_faults')):
            # the FIRST event manager raises; the second one does not, so the lifecycle grammar binds for it (C14)
            findings += [f for f in monitors.check_second_manager(obs, ro, cancelled=True)
                         if f['kind'] in ('pipeline_complete_without_start', 'pipeline_start_not_first_once',
                                          'node_complete_without_start', 'event_after_pipeline_complete')]
        if faults and not was_cancelled and case.get('events', True) \
                and all(name == 'save' for name, _ in case.get('collab_faults')):
            # only the artifact store raises, the event managers do not: the lifecycle grammar (C14) still binds
            findings += monitors.check_events(obs, ro, ref, prog, cancelled=False)
        findings += monitors.check_post_end(obs, ro)
        if ro.kwargs_before is not None and ro.kwargs_after is not None \
                and ro.kwargs_before != ro.kwargs_after:
            findings.append(monitors.F(['C07'], 'input_kwargs_mutated',
                                       before=sorted(map(str, ro.kwargs_before)),
                                       after=sorted(map(str, ro.kwargs_after))))
    if obs.runs:
        r0 = obs.runs[0]
        stats['outcome_class'] = (r0.outcome, hashlib.sha1(repr(r0.value).encode()).hexdigest()[:10]
                                  if r0.outcome == 'value' else None)
    shared = [r for r in obs.trace if r['k'] == 'manager_shared']
    if shared:
        findings.append(monitors.F(['C08', 'C07', 'C14'], 'event_manager_object_shared_by_runs', runs=sorted({str(r['run']) for r in shared})[:4],
                                   n=len(shared)))
    if getattr(obs, 'meta_obj', None) is not None and obs.meta_obj != obs.meta_before:
        findings.append(monitors.F(['C07', 'C08'], 'caller_meta_mutated', before=sorted(map(str, obs.meta_before)),
                                   after=sorted(map(str, obs.meta_obj))))
    for f in findings:
        if f['kind'] == 'cancelled_escaped':
            # nobody cancelled the run and no body raised CancelledError: the engine cancelled work the run needed.
            # That is not the dataflow outcome (C01) and, if a one-of candidate was lost in this run, not contained (C10)
            extra = {'C01'} if any(r.outcome[0] == 'value' for r in refs.values()) else set()
            if any(r.losers for r in refs.values()):
                extra.add('C10')
            f['prop'] = sorted(set(f['prop']) | extra)
    dyn = set()
    for r in refs.values():
        dyn |= r.dyn
    if 'rec_two_scopes_static' in (prog0.get('tags') or []):
        if faults or cancelled or any(outputs) or any(gen.dynamic_two_scopes(prog0, r) for r in refs.values()):
            # with collaborator faults / cancellation the run may take other branches than the reference
            dyn.add('rec_two_scopes')
    if obs.verdict:
        # a hang where the statement of a construct demands an error result also refutes that construct's property
        extra = set()
        if 'case_shared' in (prog.get('tags') or []):
            extra.add('C09')        # "a selected case already computed for another consumer is reused"
        for r in refs.values():
            extra.add('C01')        # the run has to yield the reference outcome (value or failure) under every schedule
            if any(v > 0 for v in r.rec_iters.values()):
                extra.add('C11')    # a recurrent subgraph re-iterates in this run: its consumers must get the final result
            if r.outcome[0] != 'value':
                extra.add('C05')    # ... and a failure has to be reported, not waited for
                for cse in r.outcome[1]:
                    extra |= {'badlabel': {'C09'}, 'oneof': {'C10'}, 'rec': {'C11'}}.get(cse[0], set())
        for f in findings:
            if f['kind'] in ('deadlock', 'livelock'):
                f['prop'] = sorted(set(f['prop']) | extra)
    if faults:
        dyn |= gen.pessimistic_tags(prog)
    if case.get('store') and case.get('gate_saves'):
        dyn.add('suspending_store')     # an artifact store whose save() really awaits
    if case.get('pool_cap'):
        dyn.add('bounded_pool')         # thread / process pools with fewer workers than ready jobs
    prog = prog0
    stats['invocations'] = sum(1 for r in obs.trace if r['k'] == 'body_start')
    if obs.pending_tasks_after_drain and not obs.verdict:
        findings.append(monitors.F(['C13'], 'tasks_pending_after_drain', n=obs.pending_tasks_after_drain,
                                   stuck=obs.stuck[:6]))
    if snap_before is not None:
        snap_after = snapshot_dag(built.dag)
        if snap_after != snap_before:
            diff = [k for k in snap_before if snap_before[k] != snap_after[k]]
            findings.append(monitors.F(['C07'], 'dag_mutated_by_run', parts=diff))
    # engine-artefact diagnostics from the loop's exception handler (never verdicts)
    stats['unhandled'] = len(obs.unhandled)
    res = {'findings': findings, 'stats': stats, 'refs': refs, 'dyn_tags': sorted(dyn)}
    if keep_obs:
        res['obs'] = obs
    if own:
        built.close()
    return res


def explore_orders(case, built, limit=200):
    """Systematic exploration of completion orders: depth-first over the choice made at every quiescent point
    (one completion or timer per point, no eager delivery).  Yields (case, result); the last yielded result has
    res['dfs_exhausted'] = True iff every order was visited within `limit` runs."""
    prefix = []
    n = 0
    while True:
        c = dict(case)
        c['ctl'] = {'seed': 0, 'mode': 'dfs', 'dfs_prefix': list(prefix)}
        c['gate_events'] = 0.0
        res = run_case(c, built, keep_obs=False)
        n += 1
        rec = res['stats'].get('dfs_record', [])
        # next prefix: backtrack to the last point with an untried option
        j = len(rec) - 1
        while j >= 0 and rec[j][0] + 1 >= rec[j][1]:
            j -= 1
        done = j < 0
        res['dfs_exhausted'] = done
        yield c, res
        if done or n >= limit:
            return
        prefix = [r[0] for r in rec[:j]] + [rec[j][0] + 1]


def sample_of(case, res):
    """Compact, human-readable sample for evidence files."""
    prog = case['prog']
    return {
        'nodes': {n: {'mode': prog['nodes'][n].get('mode'),
                      'params': prog['nodes'][n].get('params'),
                      'plan': prog['nodes'][n].get('plan') or None,
                      'retry': prog['nodes'][n].get('retry')} for n in prog['order']},
        'output': prog['output'], 'runs': case['runs'], 'shape': case.get('shape', 'single'),
        'ctl': {k: v for k, v in (case.get('ctl') or {}).items() if k != 'script'},
        'tags': prog.get('tags'), 'stats': res.get('stats'),
        'expected': {t: (r.outcome[0], repr(r.outcome[1])[:160]) for t, r in res.get('refs', {}).items()},
    }


def random_ctl(rng, prog=None, heavy=False):
    mode = rng.choice(['random', 'random', 'random', 'pct', 'fifo', 'lifo'])
    spec = {'seed': rng.randrange(1 << 30), 'mode': mode,
            'eager': rng.choice([0.0, 0.2, 0.5, 0.9]), 'batch': rng.choice([1, 2, 3, 4]),
            'pct_d': rng.choice([1, 2, 3]), 'timer_bias': rng.choice([0.1, 0.3, 0.7])}
    if prog is not None and rng.random() < 0.25:
        spec['starve'] = {'node': rng.choice(prog['order'])}
    elif prog is not None and (prog.get('hints') or {}).get('slow') and rng.random() < 0.4:
        spec['starve'] = {'node': rng.choice(prog['hints']['slow'])}
    return spec
