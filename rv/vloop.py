"""Virtual asyncio event loop + schedule controller (DESIGN.md 3.3).

The loop is the real ``asyncio.BaseEventLoop`` (ready queue, timer heap, tasks, futures, locks are
CPython's); only three things are substituted:

* the clock (``time()`` is a virtual counter advanced by the controller),
* the selector (``select(timeout)`` is the controller hook: it is called once per loop iteration
  *before* the ready queue is snapshotted, with ``timeout is None`` iff nothing is ready and no
  timer is armed, ``timeout > 0`` iff only timers are armed, ``0`` iff ready work exists),
* the executors (``VExecutor.submit`` parks the job behind a gate; releasing the gate runs the job
  and completes the concurrent future, which reaches the loop through the genuine
  ``wrap_future -> call_soon_threadsafe`` path).

External completions ("gates") are the only thing the controller reorders; the ready queue is
never permuted.
"""
from __future__ import annotations

import asyncio
import concurrent.futures as cf
import contextvars
import heapq
import random
from asyncio import base_events


class Deadlock(Exception):
    pass


class Livelock(Exception):
    pass


class _FakeSelector:
    def __init__(self, loop):
        self._loop = loop

    def select(self, timeout=None):
        self._loop._hook(timeout)
        return ()

    def close(self):
        pass

    def get_map(self):
        return {}


class Gate:
    __slots__ = ('key', 'kind', 'release', 'alive', 'prio', 'seq', 'meta')

    def __init__(self, key, kind, release, seq, meta=None):
        self.key = key
        self.kind = kind
        self.release = release
        self.alive = True
        self.prio = 0.0
        self.seq = seq
        self.meta = meta

    def __repr__(self):
        return f'<Gate {self.key}>'


class VLoop(base_events.BaseEventLoop):
    def __init__(self, controller):
        super().__init__()
        self._vtime = 0.0
        self._clock_resolution = 1e-9
        self._selector = _FakeSelector(self)
        self.controller = controller
        controller.loop = self
        self.step = 0
        self.gates = {}          # key -> Gate (pending only)
        self._gate_seq = 0
        self._key_counts = {}
        self.unhandled = []      # exception-handler records
        self.set_exception_handler(self._exc_handler)

    # ---- substituted primitives -------------------------------------------------------------
    def time(self):
        return self._vtime

    def _process_events(self, event_list):
        pass

    def _write_to_self(self):
        pass

    def _exc_handler(self, loop, context):
        self.unhandled.append({k: repr(v)[:300] for k, v in context.items()})

    def close(self):
        if self.is_running():
            raise RuntimeError('Cannot close a running event loop')
        if self.is_closed():
            return
        self._closed = True
        self._ready.clear()
        self._scheduled.clear()
        self._executor_shutdown_called = True
        self._default_executor = None

    # ---- gates ------------------------------------------------------------------------------
    def unique_key(self, base):
        n = self._key_counts.get(base, 0)
        self._key_counts[base] = n + 1
        return base + (n,)

    def add_gate(self, base_key, kind, release, meta=None):
        key = self.unique_key(tuple(base_key))
        self._gate_seq += 1
        g = Gate(key, kind, release, self._gate_seq, meta)
        self.gates[key] = g
        self.controller.on_new_gate(g)
        return g

    def drop_gate(self, g):
        if g.alive:
            g.alive = False
            self.gates.pop(g.key, None)

    def release_gate(self, g):
        if not g.alive:
            return
        g.alive = False
        self.gates.pop(g.key, None)
        g.release()

    def gate_future(self, base_key, meta=None):
        """An awaitable released by the controller (models an I/O completion)."""
        fut = self.create_future()

        def _release():
            if not fut.done():
                fut.set_result(None)

        g = self.add_gate(base_key, 'await', _release, meta)
        fut.add_done_callback(lambda f, g=g: self.drop_gate(g))
        return fut

    def next_timer(self):
        while self._scheduled and self._scheduled[0]._cancelled:
            self._timer_cancelled_count -= 1
            h = heapq.heappop(self._scheduled)
            h._scheduled = False
        if self._scheduled:
            return self._scheduled[0]._when
        return None

    def advance_to_timer(self):
        when = self.next_timer()
        if when is not None and when > self._vtime:
            self._vtime = when
        # equal deadlines fire together; clock resolution makes `when < end_time` true

    # ---- hook -------------------------------------------------------------------------------
    def _hook(self, timeout):
        self.step += 1
        self.controller.on_select(timeout)


class VExecutor(cf.ThreadPoolExecutor):
    """Executor whose jobs are parked until the controller releases them.

    Subclasses ThreadPoolExecutor only so that the registries' readiness tests (``_shutdown``)
    see the attributes they expect; no thread is ever started.
    """

    def __init__(self, name):
        super().__init__(max_workers=1)
        self.vname = name
        self._shutdown_thread = False   # attribute read by the process-pool registry
        self.loop = None
        self.on_submit = None
        self.on_start = None     # a queued job is picked up by a worker (bounded pool only)
        self.submitted = 0
        self.cap = None          # max jobs in flight; None = every job is picked up at once
        self.running = 0
        self.queue = []

    def submit(self, fn, /, *args, **kwargs):
        if self._shutdown:
            raise RuntimeError('cannot schedule new futures after shutdown')
        loop = self.loop
        if loop is None:
            raise RuntimeError('VExecutor used outside of a virtual run')
        self.submitted += 1
        fut = cf.Future()
        ctx = contextvars.copy_context()
        meta = self.on_submit(self.vname, fn) if self.on_submit else None
        job = (fut, fn, args, kwargs, ctx, meta)
        if self.cap is not None and self.running >= self.cap:
            # bounded pool: the job waits in the queue, NOT yet picked up by a worker; a cancelled future is dropped
            self.queue.append(job)
        else:
            self._start(job, queued=False)
        return fut

    def _start(self, job, queued):
        fut, fn, args, kwargs, ctx, meta = job
        if not fut.set_running_or_notify_cancel():
            return False        # cancelled while it was waiting in the queue
        self.running += 1
        if queued and self.on_start:
            self.on_start(self.vname, meta)

        def _release():
            try:
                res = ctx.run(fn, *args, **kwargs)
            except BaseException as e:   # noqa: BLE001 - executor semantics
                fut.set_exception(e)
            else:
                fut.set_result(res)
            self.running -= 1
            self._pump()

        base = ('exec', self.vname) + tuple(meta or ())
        self.loop.add_gate(base, 'exec', _release, meta)
        return True

    def _pump(self):
        while self.queue and (self.cap is None or self.running < self.cap):
            self._start(self.queue.pop(0), queued=True)

    def reset(self, cap=None):
        self.cap = cap
        self.running = 0
        self.queue = []

    def shutdown(self, wait=True, *, cancel_futures=False):
        pass


# --------------------------------------------------------------------------------------------
# Controllers
# --------------------------------------------------------------------------------------------

class Controller:
    """Seeded random controller with batched delivery, PCT priorities and starvation.

    params:
      eager      probability of delivering completions at a busy iteration
      batch      max completions delivered per iteration
      mode       'random' | 'pct' | 'fifo' | 'lifo'
      pct_d      number of priority change points
      starve     predicate(gate) -> bool : withhold as long as any alternative exists
      timer_bias probability of preferring timer advance at a quiescent point
      cancel_at  {main_index: step}
      max_steps  livelock bound
    """

    def __init__(self, seed=0, eager=0.3, batch=3, mode='random', pct_d=2, starve=None,
                 timer_bias=0.3, cancel_at=None, max_steps=20000, script=None, hold=None):
        self.rng = random.Random(seed)
        self.eager = eager
        self.batch = batch
        self.mode = mode
        self.pct_d = pct_d
        self.starve = starve
        self.timer_bias = timer_bias
        self.cancel_at = dict(cancel_at or {})
        self.max_steps = max_steps
        self.loop = None
        self.mains = []             # main tasks
        self.log = []               # (step, [actions])
        self.verdict = None         # None | 'deadlock' | 'livelock'
        self.draining = False
        self.quiescent_points = 0
        self.choice_points = 0      # points with >= 2 options
        self.on_quiescent = None    # callback(loop) for monitors
        self.script = script        # {step: [actions]} replays a recorded schedule
        self.hold = hold            # predicate(gate): never released before quiescence w/o alt
        self._pct_changes = None
        self.cancelled_steps = {}
        self.cancel_info = {}
        self.max_pending = 0
        self.post_end_released = 0
        self.dfs_prefix = None      # mode 'dfs': list of option indices to take at successive quiescent points
        self.dfs_record = []        # (index taken, number of options) per quiescent point

    # -- hooks ----------------------------------------------------------------------------
    def on_new_gate(self, g):
        g.prio = self.rng.random()
        if len(self.loop.gates) > self.max_pending:
            self.max_pending = len(self.loop.gates)

    def all_mains_done(self):
        return all(t.done() for t in self.mains)

    def _do(self, actions):
        loop = self.loop
        done = []
        for a in actions:
            if a == 'TIMER':
                loop.advance_to_timer()
                done.append(a)
            else:
                g = loop.gates.get(a)
                if g is not None:
                    loop.release_gate(g)
                    done.append(a)
        if done:
            self.log.append((loop.step, done))

    def on_select(self, timeout):
        loop = self.loop
        step = loop.step
        for idx, at in self.cancel_at.items():
            if at == step and idx < len(self.mains) and not self.mains[idx].done():
                self.mains[idx].cancel()
                self.cancelled_steps[idx] = step
                self.cancel_info[idx] = (len(loop.gates), sum(
                    1 for t in asyncio.all_tasks(loop) if not t.done()) - sum(
                    1 for t in self.mains if not t.done()))
        if loop._stopping:
            return
        if step > self.max_steps:
            self.verdict = 'livelock'
            loop.stop()
            return
        if self.all_mains_done() and not self.draining:
            self.draining = True
        busy = (timeout == 0)
        if self.script is not None:
            acts = self.script.get(step)
            if acts:
                self._do(acts)
            elif not busy:
                self._quiescent_fallback(timeout)
            return
        if self.draining:
            if busy:
                return
            opts = self._options(timeout)
            if not opts:
                loop.stop()
                return
            self.post_end_released += 1
            self._do([opts[0]])
            return
        if busy:
            if loop.gates or loop._scheduled:
                if self.rng.random() < self.eager:
                    opts = self._options(timeout, busy=True)
                    if opts:
                        self._do(self._pick(opts, busy=True))
            return
        # quiescent
        self.quiescent_points += 1
        if self.on_quiescent is not None:
            self.on_quiescent(loop)
        opts = self._options(timeout)
        if not opts:
            self.verdict = 'deadlock'
            loop.stop()
            return
        if len(opts) >= 2:
            self.choice_points += 1
        self._do(self._pick(opts, busy=False))

    def _quiescent_fallback(self, timeout):
        # scripted replay ran out of script (e.g. during shrinking): fall back to FIFO
        opts = self._options(timeout)
        if not opts:
            if not self.all_mains_done():
                self.verdict = 'deadlock'
            self.loop.stop()
            return
        self._do([opts[0]])

    # -- choice ---------------------------------------------------------------------------
    def _options(self, timeout, busy=False):
        loop = self.loop
        gates = sorted(loop.gates.values(), key=lambda g: g.seq)
        if self.hold is not None and busy:
            gates = [g for g in gates if not self.hold(g)]
        opts = [g.key for g in gates]
        if loop.next_timer() is not None:
            opts.append('TIMER')
        if self.starve is not None and len(opts) > 1:
            kept = [o for o in opts if o == 'TIMER' or not self.starve(loop.gates[o])]
            if kept:
                opts = kept
        return opts

    def _pick(self, opts, busy):
        rng = self.rng
        if self.mode == 'dfs':
            i = len(self.dfs_record)
            idx = self.dfs_prefix[i] if self.dfs_prefix and i < len(self.dfs_prefix) else 0
            idx = min(idx, len(opts) - 1)
            self.dfs_record.append((idx, len(opts)))
            return [opts[idx]]
        if self.mode == 'fifo':
            return [opts[0]]
        if self.mode == 'lifo':
            return [opts[-1]]
        if self.mode == 'pct':
            if self._pct_changes is None:
                self._pct_changes = sorted(rng.randrange(1, 60) for _ in range(self.pct_d))
            gl = [o for o in opts if o != 'TIMER']
            if 'TIMER' in opts and (not gl or rng.random() < self.timer_bias):
                return ['TIMER']
            best = max(gl, key=lambda k: self.loop.gates[k].prio)
            if self._pct_changes and self.choice_points >= self._pct_changes[0]:
                self._pct_changes.pop(0)
                self.loop.gates[best].prio = -rng.random()
                best = max(gl, key=lambda k: self.loop.gates[k].prio)
            return [best]
        # random with batched delivery
        k = 1
        if self.batch > 1 and len(opts) > 1:
            k = rng.randint(1, min(self.batch, len(opts)))
        if 'TIMER' in opts and len(opts) > 1 and rng.random() < self.timer_bias:
            rest = [o for o in opts if o != 'TIMER']
            picked = ['TIMER'] + rng.sample(rest, min(k - 1, len(rest)))
            rng.shuffle(picked)
            return picked
        return rng.sample(opts, k)


def run_virtual(main_factories, controller, executors=(), cleanup=True):
    """Run coroutine factories as main tasks on a fresh virtual loop.

    Returns (loop, tasks).  ``controller.verdict`` tells deadlock / livelock.
    """
    loop = VLoop(controller)
    for ex in executors:
        ex.loop = loop
    try:
        asyncio.set_event_loop(loop)
        tasks = [loop.create_task(f(), name=f'main-{i}') for i, f in enumerate(main_factories)]
        controller.mains = tasks
        loop.run_forever()
        if cleanup:
            _cleanup(loop, controller)
    finally:
        asyncio.set_event_loop(None)
        for ex in executors:
            ex.loop = None
        loop.close()
    return loop, tasks


def _cleanup(loop, controller):
    """Cancel whatever is left (after a verdict) so coroutines are closed quietly."""
    pending = [t for t in asyncio.all_tasks(loop) if not t.done()]
    if not pending and not loop.gates:
        return
    for t in pending:
        t.cancel()

    class _C:
        def __init__(self):
            self.n = 0
            self.loop = loop

        def on_new_gate(self, g):
            pass

        def on_select(self, timeout):
            self.n += 1
            for g in list(loop.gates.values()):
                if g.kind == 'exec':
                    loop.drop_gate(g)      # never run parked bodies during cleanup
                else:
                    loop.release_gate(g)
            if timeout != 0:
                if loop.next_timer() is not None:
                    loop.advance_to_timer()
                    return
                loop.stop()
            elif self.n > 2000:
                loop.stop()
            else:
                for t in asyncio.all_tasks(loop):
                    if not t.done() and self.n % 50 == 0:
                        t.cancel()

    loop.controller = _C()
    loop.cleanup_mode = True
    loop.run_forever()
