"""Workloads with special shapes: C02 fault enumeration, C06 level-hold, C07 sequences,
C08 overlapping runs, C12 retry configurations, C13 cancellation at every step."""
from __future__ import annotations

import copy
import itertools
import os
import random

from rv import cases, gen, harness, monitors, refsem, vloop
from rv.props import Acc, BUDGET, PROFILES, _tagcount, base_case, gen_prog

RULES = {}
FLOORS = {
    'C13': {'cancel_delivered': 300, 'cancel_inflight': 150},
    'C06': {'levels_audited': 500},
}
ASSUMPTIONS = {}


def retag(prog):
    prog['tags'] = sorted(gen.analyze(prog))
    return prog


# ----------------------------------------------------------------------------------------------
# C02: single-fault placements
# ----------------------------------------------------------------------------------------------

def placements(prog, rng, val):
    """Yield (description, mutated program, case-extras) for every single fault placement."""
    reach = [n for n in prog['order'] if n in gen.reachable(prog)]
    for n in reach:
        node = prog['nodes'][n]
        for exc in ('E1', 'EOther', 'Fatal', 'ECancel'):
            p = copy.deepcopy(prog)
            p['nodes'][n].setdefault('plan', {})['fail'] = ['ALWAYS', exc]
            p['nodes'][n]['plan'].pop('fail_when', None)
            yield (f'fail:{n}:{exc}', retag(p), {})
        r = node.get('retry') or {}
        if (r.get('attempts') or 1) > 1:
            for k in range(1, (r.get('attempts') or 1) + 1):
                p = copy.deepcopy(prog)
                p['nodes'][n].setdefault('plan', {})['fail'] = ['E1'] * k
                p['nodes'][n]['plan'].pop('fail_when', None)
                yield (f'fail_first_{k}:{n}', retag(p), {})
        if node.get('kind', 'plain') == 'plain':
            for lit in (None, 0, ''):
                p = copy.deepcopy(prog)
                p['nodes'][n].setdefault('plan', {})['ret'] = ['lit', lit]
                yield (f'ret:{n}:{lit!r}', retag(p), {})
        if node.get('kind') == 'decider':
            for unknown in ('ZZZ', None, 0, '', ['L0'], {}):      # incl. unhashable values: they equal no declared label
                if unknown in node['plan']['labels']:
                    continue
                p = copy.deepcopy(prog)
                p['nodes'][n]['plan']['labels'] = list(p['nodes'][n]['plan']['labels']) + ['ZZZ']
                p['nodes'][n]['plan']['label_by_input'] = {str(val): unknown}
                yield (f'unknown_label:{n}:{unknown!r}', retag(p), {})


def work_c02(prop, tier, seed, widx, nworkers):
    rng = random.Random(f'{prop}-{seed}-{widx}')
    nprog, nsched = BUDGET[prop][0 if tier == 'quick' else 1]
    acc = Acc(prop)
    for _ in range(nprog):
        prof = dict(PROFILES[prop], n_max=7)
        prog = gen.gen_program(rng, prof)
        _tagcount(acc, prog)
        acc.programs += 1
        val = rng.choice([0, 1, 2, 3])
        # node / value / label faults
        for desc, p, extra in placements(prog, rng, val):
            built = harness.Built(p)
            for s in range(nsched):
                case = base_case(p, [['r0', val]], rng, placement=desc)
                if s == nsched - 1:
                    case['ctl']['starve'] = {'node': rng.choice(p['order'])}
                res = cases.run_case(case, built)
                acc.add(case, res)
            built.close()
            acc.counters['placements_node'] = acc.counters.get('placements_node', 0) + 1
        # collaborator faults: every (callback, call index) and every save index of a baseline run
        built = harness.Built(prog, events=True, store=True)
        base = base_case(prog, [['r0', val]], rng, store=True)
        res0 = cases.run_case(base, built, keep_obs=True)
        calls = {}
        for (run, name), n in res0['obs'].session.collab_calls.items():
            calls[name] = n
        for name, n in sorted(calls.items()):
            for k in range(n):
                for s in range(max(1, nsched - 1)):
                    case = base_case(prog, [['r0', val]], rng, store=True,
                                     collab_faults=[[name, k]], placement=f'collab:{name}:{k}',
                                     write_once=False)
                    res = cases.run_case(case, built)
                    acc.add(case, res)
                acc.counters['placements_collab'] = acc.counters.get('placements_collab', 0) + 1
        built.close()
        if tier == 'thorough' and len(gen.reachable(prog)) <= 8:
            # pairs of node failures
            reach = [n for n in prog['order'] if n in gen.reachable(prog)]
            for a, b in itertools.combinations(reach, 2):
                p = copy.deepcopy(prog)
                for n in (a, b):
                    p['nodes'][n].setdefault('plan', {})['fail'] = ['ALWAYS', 'E1']
                retag(p)
                built = harness.Built(p)
                for s in range(2):
                    case = base_case(p, [['r0', val]], rng, placement=f'fail2:{a}:{b}')
                    acc.add(case, cases.run_case(case, built))
                built.close()
                acc.counters['placements_pair'] = acc.counters.get('placements_pair', 0) + 1
    # fault-free runs of larger programs (nested recurrent subgraphs, shared cases, chained one-ofs): termination
    # is required there as well and the single-fault programs above are too small to contain these shapes
    big = [gen.profile(p_rec=0.5, p_rec_nested=0.5, p_sw=0.15, p_oneof=0.15, n_max=11, p_fail=0.1),
           gen.profile(p_sw=0.35, p_oneof=0.3, p_rec=0.15, p_share_lazy=0.4, n_max=11, p_fail=0.2),
           # one-of heavy: shared lazies (a node that is a case and a candidate's dependency ...), containment and
           # deep-chain shapes
           gen.profile(p_oneof=0.4, p_sw=0.25, p_rec=0.1, p_share_lazy=0.4, p_share_cand=0.3, p_reuse_lazy=0.3,
                       p_global_share=0.35, p_deep_chain=0.3, p_contain_shape=0.3, p_lazy_fail_shape=0.25, p_reuse_switch=0.25, p_shared_switch_shape=0.3, n_max=12, max_depth=4, p_fail=0.25)]
    for i in range(90 if tier == 'quick' else 1050):
        prog = gen.gen_program(rng, big[i % 3])
        _tagcount(acc, prog)
        acc.programs += 1
        built = harness.Built(prog)
        for val in rng.sample([0, 1, 2, 3], 2):
            for s in range(nsched):
                case = base_case(prog, [['r0', val]], rng, placement='none')
                acc.add(case, cases.run_case(case, built))
        built.close()
        acc.counters['fault_free_programs'] = acc.counters.get('fault_free_programs', 0) + 1
    return acc.result()


RULES['C02'] = ('programs from the grammar (no planned failures) x every single fault placement: node failure '
                '(each reachable node x {E1, EOther}; first k attempts for retrying nodes), None/0/"" return on '
                'each plain node, unknown label on each switch decider, CollabFault at every (event callback, '
                'call index) and every artifact save of a baseline run; thorough adds all pairs of failing nodes '
                'for programs <= 8 nodes. Each placement x schedules (random/PCT/fifo/lifo, batched delivery, one '
                'starve-one); plus fault-free runs of larger programs (nested recurrent subgraphs, shared cases, chained one-ofs). '
                'Verdict per run = exact quiescence oracle of the virtual loop. A case is non-trivial '
                'if its schedule had >= 2 choice points with >= 2 options; distinct = distinct (program, placement, '
                'schedule parameters) hash.')


# ----------------------------------------------------------------------------------------------
# C06: level-hold
# ----------------------------------------------------------------------------------------------

def gen_layered(rng):
    nlayers = rng.randint(2, 4)
    nodes = {}
    order = []
    n = 0

    def new(**kw):
        nonlocal n
        nid = f'N{n}'
        n += 1
        node = {'id': nid, 'mode': rng.choice(gen.ALL_MODES), 'params': [], 'kind': 'plain', 'plan': {}}
        node.update(kw)
        nodes[nid] = node
        order.append(nid)
        return nid
    inp = new(plain_params=['x'])
    layers = [[inp]]
    for li in range(nlayers):
        width = rng.randint(1, 6)
        layer = []
        for _ in range(width):
            prev_all = [x for lay in layers for x in lay]
            if rng.random() < 0.1 and li == 0:
                layer.append(new())    # mark-less node: implicit link to the input
                continue
            k = rng.randint(1, min(3, len(prev_all)))
            deps = rng.sample(prev_all, k)
            if not any(d in layers[-1] for d in deps):
                deps[0] = rng.choice(layers[-1])
            deps = list(dict.fromkeys(deps))
            nid = new()
            nodes[nid]['params'] = [['abc'[i], ['in', d]] for i, d in enumerate(deps)]
            layer.append(nid)
        layers.append(layer)
    prev_all = [x for lay in layers[1:] for x in lay]
    # output depends on every sink so that all nodes are needed
    consumed = {m[1] for nd in nodes.values() for _, m in nd['params']}
    sinks = [x for x in prev_all if x not in consumed]
    out = new()
    nodes[out]['params'] = [[f'p{i}', ['in', d]] for i, d in enumerate(sinks)]
    prog = {'nodes': nodes, 'order': order, 'input': inp, 'output': out, 'tags': []}
    if rng.random() < 0.4:
        gen.add_generics(prog, rng, 0.3)        # build_node() derivatives keep the mode of their base class
    elif rng.random() < 0.3:
        # several build_node() derivatives of ONE sync base class, created without class_name (they all carry the class
        # name Generic<Base>), each with its own execution mode through attrs={'tags': ...}
        cand = [x for x in order if x != inp and x != out and len(nodes[x]['params']) >= 1]
        rng.shuffle(cand)
        for first in cand[:1]:
            k = len(nodes[first]['params'])
            same = [first] + [x for x in cand[1:] if len(nodes[x]['params']) == k][:rng.randint(1, 3)]
            if len(same) < 2:
                break
            base_id = 'G' + first[1:]
            for x in same:
                nodes[x]['params'] = [['abc'[i], m] for i, (_, m) in enumerate(nodes[x]['params'])]
                nodes[x]['mode'] = rng.choice(['thread', 'inline', 'thread_tag', 'custom_tag', 'inline'])
            base = copy.deepcopy(nodes[first])
            base.update(id=base_id, generic_base=True, attrs_tags_base=True, nm=['custom', 'base_' + first], mode='thread')
            nodes[base_id] = base
            order.insert(order.index(min(same, key=order.index)), base_id)
            for x in same:
                nodes[x].update(generic_of=base_id, attrs_tags=True, no_class_name=True)
    if rng.random() < 0.3:
        # node classes deriving from another node class of the pipeline and declaring their own tags and process
        plain = [x for x in order if x != inp and not nodes[x].get('generic_of') and not nodes[x].get('generic_base')]
        for x in plain:
            earlier = [b for b in plain if order.index(b) < order.index(x) and not nodes[b].get('base')]
            if earlier and rng.random() < 0.3:
                nodes[x]['base'] = rng.choice(earlier)
                nodes[x]['explicit_tags'] = True
    return prog


def depths(prog):
    d = {prog['input']: 0}
    for nid in prog['order']:
        if nid == prog['input'] or prog['nodes'][nid].get('generic_base'):
            continue
        ps = [m[1] for _, m in prog['nodes'][nid]['params']]
        d[nid] = 1 + max([d[p] for p in ps], default=0)
    return d


def run_level_case(case):
    prog = case['prog']
    built = harness.Built(prog, events=False)
    res = _level(prog, built, case)
    built.close()
    return res['findings']


def _level(prog, built, case):
    dep = depths(prog)
    ctl = cases.ctl_from(case['ctl'])
    ctl.eager = 0.0
    ctl.batch = 1
    audited = {'n': 0, 'maxwidth': 0}
    findings = []
    from rv import rt

    def on_q(loop):
        sess = rt.S
        finished = set()
        started = set()
        for r in sess.trace:
            if r['k'] == 'body_ret':
                finished.add(r['node'])
            elif r['k'] in ('body_start', 'submit'):
                started.add(r['node'])
        unfinished = [n for n in dep if n not in finished]
        if not unfinished:
            return
        D = min(dep[n] for n in unfinished)
        level = [n for n in dep if dep[n] == D]
        audited['n'] += 1
        inflight = [n for n in level if n in started and n not in finished]
        audited['maxwidth'] = max(audited['maxwidth'], len(inflight))
        for n in level:
            if n in finished:
                continue
            if n not in started:
                findings.append(monitors.F(['C06'], 'sibling_not_started', node=n, depth=D,
                                           mode=prog['nodes'][n]['mode'],
                                           inflight=inflight, level=level))
    built.fresh(events=False)
    obs = harness.execute(built, [('r0', case['runs'][0][1])], ctl, on_quiescent=on_q)
    fs = monitors.check_termination(obs) + findings + monitors.check_dispatch(obs, prog)[0]
    stats = {'steps': obs.steps, 'choice_points': obs.choice_points, 'levels_audited': audited['n'],
             'max_width_held': audited['maxwidth']}
    return {'findings': fs, 'stats': stats, 'refs': {}}


def work_c06(prop, tier, seed, widx, nworkers):
    rng = random.Random(f'{prop}-{seed}-{widx}')
    nprog, nsched = (190, 3) if tier == 'quick' else (2500, 8)
    acc = Acc(prop)
    for _ in range(nprog):
        prog = gen_layered(rng)
        acc.programs += 1
        built = harness.Built(prog, events=False)
        for s in range(nsched):
            case = {'prog': prog, 'runs': [['r0', 0]], 'runner': 'run_level_case',
                    'ctl': {'seed': rng.randrange(1 << 30), 'mode': rng.choice(['random', 'fifo', 'lifo'])}}
            res = _level(prog, built, case)
            acc.add(case, res)
            mw = res['stats']['max_width_held']
            acc.counters['max_width_held_max'] = max(acc.counters.get('max_width_held_max', 0), mw)
        built.close()
    if widx < (2 if tier == 'quick' else 8):
        _real_width(acc, seed * 100 + widx)
    r = acc.result()
    r['counters'].pop('max_width_held', None)
    return r


def _real_width(acc, seed):
    """Real default pools (rv/realwidth.py, fresh interpreter): W sibling bodies of one depth rendezvous."""
    import json as _json
    import subprocess
    import sys as _sys
    import tempfile
    out = tempfile.mktemp(prefix='rvwidth_', suffix='.json')
    env = dict(os.environ)
    try:
        p = subprocess.run([_sys.executable, '-m', 'rv.realwidth', out, str(seed)], env=env, capture_output=True,
                           timeout=600, cwd=os.path.dirname(os.path.dirname(os.path.abspath(__file__))))
        rows = _json.load(open(out)) if os.path.exists(out) else None
    except subprocess.TimeoutExpired:
        rows = None
    finally:
        if os.path.exists(out):
            os.remove(out)
    if rows is None:
        acc.counters['real_width_inconclusive'] = acc.counters.get('real_width_inconclusive', 0) + 1
        return
    for r in rows:
        acc.evaluations += 1
        acc.counters['real_width_cases'] = acc.counters.get('real_width_cases', 0) + 1
        acc.counters['real_width_bodies_in_flight_together'] = \
            acc.counters.get('real_width_bodies_in_flight_together', 0) + (0 if r['broken'] else r['w'])
        if r['broken'] and r['started_when_given_up'] < r['w']:
            acc.findings.append({'kind': 'siblings_not_in_flight_together_real_pool', 'prop': ['C06'], 'tags': [],
                                 'detail': r, 'case': {'what': 'real_width', 'seed': seed, 'row': r, 'runner': 'real_width_case'}})
        elif r['broken']:
            acc.counters['real_width_inconclusive'] = acc.counters.get('real_width_inconclusive', 0) + 1


def real_width_case(case):
    """Replay entry: re-run the real-pool width scenario of the stored seed."""
    acc = Acc('C06')
    _real_width(acc, case['seed'])
    return [{'kind': f['kind'], 'prop': f['prop'], 'detail': f['detail']} for f in acc.findings]


RULES['C06'] = ('random layered plain-Input DAGs (2-4 layers, width 1-6, every mix of async/thread/inline/process '
                'modes, mark-less nodes) under a level-hold controller: completions are delivered only at '
                'quiescent points, one at a time; at every quiescent point the monitor computes D = min depth '
                '(longest path from the input) of unfinished nodes and requires every unfinished node of depth D to '
                'have a recorded body start / executor submission. Non-trivial: >= 2 choice points. Plus (rv/realwidth.py, real '
                'loop and the pools auto_init() creates): W = 5..8 thread-pool and 2..4 process-pool siblings rendezvous '
                '(barrier / marker files); a violation only if the rendezvous gave up with fewer than W bodies started.')


# ----------------------------------------------------------------------------------------------
# C07 / C08
# ----------------------------------------------------------------------------------------------

def work_c07(prop, tier, seed, widx, nworkers):
    rng = random.Random(f'{prop}-{seed}-{widx}')
    nprog, nsched = BUDGET[prop][0 if tier == 'quick' else 1]
    acc = Acc(prop)
    for _ in range(nprog):
        prog = gen_prog(rng, prop)
        _tagcount(acc, prog)
        acc.programs += 1
        built = harness.Built(prog)
        for s in range(nsched):
            k = rng.randint(2, 6)
            runs = [[f'r{i}', rng.choice([0, 1, 2, 3])] for i in range(k)]
            case = base_case(prog, runs, rng, shape='seq', snapshot=True)
            if rng.random() < 0.4:
                case['shared_meta'] = True      # the caller reuses one meta dict for every run
            res = cases.run_case(case, built)
            # every finding of a later run on a reused chart refutes C07 as well
            for f in res['findings']:
                if 'C07' not in f['prop'] and f['kind'] not in ('deadlock', 'livelock'):
                    f['prop'] = f['prop'] + ['C07']
                elif 'C07' not in f['prop']:
                    f['prop'] = f['prop'] + ['C07']
            acc.add(case, res)
            acc.counters['runs_in_sequences'] = acc.counters.get('runs_in_sequences', 0) + k
        built.close()
    return acc.result()


RULES['C07'] = ('grammar programs (all constructs, failing nodes) x sequences of 2-6 chart.run calls with random '
                'inputs on ONE chart object; every run is compared with the history-free reference (outcome and every '
                'invocation), and DAG graph / node_map / class attributes / caller input_kwargs are snapshotted before '
                'and after. Non-trivial: >= 2 choice points; distinct by (program, run sequence, schedule parameters).')


def work_c08(prop, tier, seed, widx, nworkers):
    rng = random.Random(f'{prop}-{seed}-{widx}')
    nprog, nsched = BUDGET[prop][0 if tier == 'quick' else 1]
    acc = Acc(prop)
    for _ in range(nprog):
        prog = gen_prog(rng, prop)
        _tagcount(acc, prog)
        acc.programs += 1
        built = harness.Built(prog)
        for s in range(nsched):
            k = rng.randint(2, 5)
            runs = [[f'r{i}', rng.choice([0, 1, 2, 3])] for i in range(k)]
            case = base_case(prog, runs, rng, shape='overlap', start_gated=rng.random() < 0.5)
            if rng.random() < 0.3:
                case['shared_meta'] = True
            case['ctl']['batch'] = rng.choice([2, 3, 4, 6])
            if rng.random() < 0.3:
                case['ctl']['cancel_at'] = {str(rng.randrange(k)): rng.randint(2, 40)}
            if rng.random() < 0.3:
                # charts sharing node classes: some runs use a second chart whose output is an inner node
                inner = [n for n in gen.eager_closure(prog, prog['output']) if n not in (prog['input'], prog['output'])
                         and prog['nodes'][n].get('kind', 'plain') == 'plain']
                if inner:
                    o2 = rng.choice(sorted(inner))
                    case['outputs'] = [o2 if rng.random() < 0.5 else None for _ in runs]
                    acc.counters['cases_with_second_chart'] = acc.counters.get('cases_with_second_chart', 0) + 1
            if rng.random() < 0.35:
                # a recording artifact store: every run's saves must carry that run's id and values
                case['store'] = True
                case['write_once'] = False
                case['gate_saves'] = rng.choice([0.0, 0.5])
                acc.counters['cases_with_store'] = acc.counters.get('cases_with_store', 0) + 1
            res = cases.run_case(case, built)
            for f in res['findings']:
                if 'C08' not in f['prop']:
                    f['prop'] = f['prop'] + ['C08']
            acc.add(case, res)
            acc.counters['overlapping_runs'] = acc.counters.get('overlapping_runs', 0) + k
        built.close()
    _pipeline_ids(acc)
    _fs_store_runs(acc, seed=f'{seed}-{widx}')
    return acc.result()


def _fs_store_runs(acc, seed='0', rounds=3):
    """The library's own FileSystemArtifactStore under several runs of ONE chart (started together and one after the
    other, explicit and generated pipeline ids): every run succeeds, and the directory <dir>/<model>/<pipeline_id> of
    every run holds exactly that run's artifacts (values carry the run's input).  Real loop, scratch directory under
    .work (removed afterwards)."""
    import asyncio
    import pickle
    import shutil
    import tempfile
    harness.setup_engine()
    from ml_pipeline_engine.artifact_store.store.filesystem import FileSystemArtifactStore
    from ml_pipeline_engine.chart import PipelineChart
    from ml_pipeline_engine.dag_builders.annotation import build_dag
    from ml_pipeline_engine.dag_builders.annotation.marks import Input
    from ml_pipeline_engine.node import ProcessorBase
    rng = random.Random(f'fs-{seed}')
    work = os.path.join(os.path.dirname(os.path.dirname(os.path.abspath(__file__))), '.work')
    os.makedirs(work, exist_ok=True)
    root = tempfile.mkdtemp(prefix='rvfs_', dir=work)

    class Store(FileSystemArtifactStore):
        def __init__(self, ctx):
            super().__init__(ctx, artifact_dir=root)

    class FsIn(ProcessorBase):
        name = 'rv_fs_in'

        async def process(self, x: int) -> int:
            return x

    class FsMid(ProcessorBase):
        name = 'rv_fs_mid'

        async def process(self, a: Input(FsIn)) -> int:
            await asyncio.sleep(0)
            return a * 10

    class FsOut(ProcessorBase):
        name = 'rv_fs_out'

        async def process(self, a: Input(FsMid), b: Input(FsIn)) -> int:
            return a + b
    FsIn.process.__annotations__ = {'x': int, 'return': int}
    FsMid.process.__annotations__ = {'a': Input(FsIn), 'return': int}
    FsOut.process.__annotations__ = {'a': Input(FsMid), 'b': Input(FsIn), 'return': int}
    chart = PipelineChart('rv_fs_model', build_dag(input_node=FsIn, output_node=FsOut), artifact_store=Store)
    ctr = [0]

    async def one(x, explicit):
        if explicit:
            ctr[0] += 1
            pid = f'fs{seed}-{ctr[0]}'
            return x, await chart.run(pipeline_id=pid, input_kwargs={'x': x})
        return x, await chart.run(input_kwargs={'x': x})

    async def scenario():
        out = []
        for _ in range(rounds):
            k = rng.randint(2, 4)
            xs = [rng.randint(1, 1000) for _ in range(k)]
            out += await asyncio.gather(*[one(x, rng.random() < 0.5) for x in xs])      # started together
            out.append(await one(rng.randint(1, 1000), rng.random() < 0.5))                # and one after the other
        return out
    import warnings
    loop = asyncio.new_event_loop()
    bad = None
    try:
        with warnings.catch_warnings():
            warnings.simplefilter('ignore')
            res = loop.run_until_complete(scenario())
        ids = [str(r.pipeline_id) for _, r in res]
        for x, r in res:
            acc.evaluations += 1
            acc.counters['fs_store_runs'] = acc.counters.get('fs_store_runs', 0) + 1
            if r.error is not None or r.value != x * 11:
                bad = {'why': 'run failed or wrong value', 'x': x, 'value': repr(r.value), 'error': repr(r.error)[:200]}
                break
            d = os.path.join(root, 'rv_fs_model', str(r.pipeline_id))
            exp = {'processor__rv_fs_in': x, 'processor__rv_fs_mid': x * 10, 'processor__rv_fs_out': x * 11}
            got = {}
            for fn in sorted(os.listdir(d)) if os.path.isdir(d) else []:
                with open(os.path.join(d, fn), 'rb') as fh:
                    got[fn.rsplit('.', 1)[0]] = pickle.load(fh)
            if got != exp:
                bad = {'why': 'the directory of the run does not hold exactly its artifacts', 'x': x, 'got': repr(got)[:300]}
                break
        if bad is None and len(set(ids)) != len(ids):
            bad = {'why': 'pipeline ids not distinct', 'ids': ids[:8]}
    except BaseException as e:  # noqa: BLE001
        bad = {'why': 'scenario raised', 'err': repr(e)[:300]}
    finally:
        loop.close()
        asyncio.set_event_loop(None)
        shutil.rmtree(root, ignore_errors=True)
    if bad is not None:
        acc.findings.append({'kind': 'fs_store_runs_not_isolated', 'prop': ['C08', 'C19'], 'tags': [], 'detail': bad,
                             'case': {'what': 'fs_store_runs', 'seed': seed, 'runner': 'fs_store_runs_case'}})


def fs_store_runs_case(case):
    acc = Acc('C08')
    _fs_store_runs(acc, seed=case.get('seed', '0'))
    return [{'kind': f['kind'], 'prop': f['prop'], 'detail': f['detail']} for f in acc.findings]


def _pipeline_ids(acc, batches=40, width=6):
    """Runs started together without an explicit pipeline_id must get distinct ids (everything keyed by the id -
    artifacts, events - would otherwise be shared by overlapping runs).  Real loop, trivial two-node chart."""
    import asyncio
    harness.setup_engine()
    from ml_pipeline_engine.chart import PipelineChart
    from ml_pipeline_engine.dag_builders.annotation import build_dag
    from ml_pipeline_engine.dag_builders.annotation.marks import Input
    from ml_pipeline_engine.node import ProcessorBase

    class PidIn(ProcessorBase):
        name = 'rv_pid_in'

        async def process(self, x: int) -> int:
            return x

    class PidOut(ProcessorBase):
        name = 'rv_pid_out'

        async def process(self, a: Input(PidIn)) -> int:
            await asyncio.sleep(0)
            return a + 1
    # this module postpones the evaluation of annotations: give the builder real objects
    PidIn.process.__annotations__ = {'x': int, 'return': int}
    PidOut.process.__annotations__ = {'a': Input(PidIn), 'return': int}
    chart = PipelineChart('rv_pid', build_dag(input_node=PidIn, output_node=PidOut))

    async def batch():
        return await asyncio.gather(*[chart.run(input_kwargs={'x': i}) for i in range(width)])
    loop = asyncio.new_event_loop()
    try:
        for b in range(batches):
            res = loop.run_until_complete(batch())
            ids = [str(r.pipeline_id) for r in res]
            acc.evaluations += 1
            acc.counters['pipeline_id_batches'] = acc.counters.get('pipeline_id_batches', 0) + 1
            if len(set(ids)) != len(ids) or any(r.error is not None or r.value != i + 1 for i, r in enumerate(res)):
                acc.findings.append({'kind': 'duplicate_pipeline_id', 'prop': ['C08'], 'tags': [],
                                     'detail': {'ids': ids[:6], 'values': [repr(r.value) for r in res][:6]},
                                     'case': {'what': 'pipeline_ids', 'runner': 'pipeline_ids_case'}})
                break
    finally:
        loop.close()
        asyncio.set_event_loop(None)


def pipeline_ids_case(case):
    acc = Acc('C08')
    _pipeline_ids(acc)
    return [{'kind': f['kind'], 'prop': f['prop'], 'detail': f['detail']} for f in acc.findings]


RULES['C08'] = ('grammar programs x multisets of 2-5 overlapping chart.run tasks on one virtual loop (distinct run tags '
                'inside every provenance term; optionally gated starts; batched completion delivery 2-6 per iteration; '
                '30% of cases cancel one run at a random step); each run is compared with its solo reference outcome and '
                'expected invocations; a value carrying a foreign run tag is reported directly. Non-trivial: >= 2 choice '
                'points; distinct by (program, runs, schedule parameters).')


# ----------------------------------------------------------------------------------------------
# C12: retry / default configurations
# ----------------------------------------------------------------------------------------------

ATTEMPTS = [None, 1, 2, 3, 4]
DELAYS = [None, 0, 0.3]
EXCS = [None, ['E1'], ['E1', 'E2']]
OUTCOMES = [None, 'E1', 'E2', 'E1Sub', 'EOther', 'ETimeout', 'Fatal']


def carrier(kind, cfg, seqn, mode, sib):
    """Carrier DAGs with the configured node X."""
    def N(i, **kw):
        d = {'id': i, 'mode': 'inline', 'params': [], 'kind': 'plain', 'plan': {}}
        d.update(kw)
        return d
    x = N('X', mode=mode, params=[['a', ['in', 'N0']]], retry=cfg, plan={'fail': list(seqn)})
    if mode == 'async' and sib == 'slow':
        x['plan']['work'] = 0.2      # every attempt takes virtual time: the pause counts from the END of the failed attempt
    if (cfg.get('use_default') and len(seqn) % 2 == 1):
        x['plan']['default_none'] = True    # get_default legitimately returns None
    nodes = {'N0': N('N0', plain_params=['x'], mode='inline'), 'X': x}
    if kind == 'chain':
        nodes['OUT'] = N('OUT', mode='async', params=[['a', ['in', 'X']]])
        order = ['N0', 'X', 'OUT']
    elif kind == 'sibling':
        splan = {'fail': ['ALWAYS', 'E2']} if sib == 'fail' else {}
        nodes['S'] = N('S', mode='async', params=[['a', ['in', 'N0']]], plan=splan)
        nodes['OUT'] = N('OUT', mode='thread', params=[['a', ['in', 'X']], ['b', ['in', 'S']]])
        order = ['N0', 'X', 'S', 'OUT']
    elif kind == 'rec':
        # X sits inside a recurrent subgraph: every iteration is a new execution with its own attempt budget
        nodes['N0']['start_of'] = True
        nodes['D'] = N('D', mode='async', params=[['a', ['in', 'X']]], kind='dest', recurrent=True,
                       plan={'start': 'N0', 'want_iter': 2}, retry={'use_default': True})
        nodes['OUT'] = N('OUT', mode='inline', params=[['a', ['rec', 'N0', 'D', 3]]])
        order = ['N0', 'X', 'D', 'OUT']
    elif kind == 'recout':
        # hostile (D9): X reads a node inside a recurrent subgraph without being ordered after it, and retries
        # while that node is re-executed; whatever value it reads, every attempt must get the SAME arguments
        nodes['N0']['start_of'] = True
        nodes['MID'] = N('MID', mode='async', params=[['a', ['in', 'N0']]])
        x['params'] = [['a', ['in', 'MID']]]
        nodes['D'] = N('D', mode='async', params=[['a', ['in', 'MID']]], kind='dest', recurrent=True,
                       plan={'start': 'N0', 'want_iter': 1})
        nodes['OUT'] = N('OUT', mode='inline', params=[['a', ['rec', 'N0', 'D', 2]], ['s', ['in', 'X']]])
        order = ['N0', 'MID', 'X', 'D', 'OUT']
    elif kind == 'recstart':
        # X is the START node of a recurrent subgraph: in a re-iteration its arguments (and those of get_default)
        # include additional_data
        x['start_of'] = True
        nodes['D'] = N('D', mode='async', params=[['a', ['in', 'X']]], kind='dest', recurrent=True,
                       plan={'start': 'X', 'want_iter': 1})
        nodes['OUT'] = N('OUT', mode='inline', params=[['a', ['rec', 'X', 'D', 2]]])
        order = ['N0', 'X', 'D', 'OUT']
    elif kind == 'oneof_shared':
        # X is shared by two candidates; the first one is lost (F fails) while X may still be retrying
        splan = {'fail': ['ALWAYS', 'E2']}
        nodes['F'] = N('F', mode='async', params=[['a', ['in', 'N0']]], plan=splan)
        nodes['C1'] = N('C1', mode='async', params=[['a', ['in', 'X']], ['b', ['in', 'F']]])
        nodes['C2'] = N('C2', mode='inline', params=[['a', ['in', 'X']]])
        nodes['OUT'] = N('OUT', mode='thread', params=[['a', ['oneof', ['C1', 'C2']]]])
        order = ['N0', 'X', 'F', 'C1', 'C2', 'OUT']
    else:   # X is the first one-of candidate
        nodes['ALT'] = N('ALT', mode='async', params=[['a', ['in', 'N0']]])
        nodes['OUT'] = N('OUT', mode='thread', params=[['a', ['oneof', ['X', 'ALT']]]])
        order = ['N0', 'X', 'ALT', 'OUT']
    prog = {'nodes': nodes, 'order': order, 'input': 'N0', 'output': 'OUT'}
    return retag(prog)


def c12_configs():
    for att in ATTEMPTS:
        for delay in DELAYS:
            for excs in EXCS:
                for ud in (False, True):
                    n = att or 1
                    for L in range(0, n + 1):
                        for seqn in itertools.product(OUTCOMES[1:], repeat=L):
                            yield ({'attempts': att, 'delay': delay, 'exceptions': excs, 'use_default': ud},
                                   list(seqn))


def work_c12(prop, tier, seed, widx, nworkers):
    rng = random.Random(f'{prop}-{seed}-{widx}')
    acc = Acc(prop)
    allcfg = list(c12_configs())
    if tier == 'quick':
        # stratified sample: every worker takes a slice of a seeded shuffle
        r2 = random.Random(f'c12-{seed}')
        r2.shuffle(allcfg)
        mine = allcfg[widx::nworkers][:170]
        nsched = 2
    else:
        mine = allcfg[widx::nworkers]
        nsched = 3
    acc.counters['configurations_total'] = len(allcfg) if widx == 0 else 0
    for cfg, seqn in mine:
        kind = rng.choice(['chain', 'sibling', 'sibling', 'oneof', 'rec', 'recout', 'recstart', 'oneof_shared'])
        mode = rng.choice(['async', 'thread', 'inline', 'process'])
        sib = rng.choice(['slow', 'fail'])
        if 'Fatal' in seqn and kind in ('oneof', 'rec', 'recout', 'recstart', 'oneof_shared'):
            kind = 'chain'
        prog = carrier(kind, cfg, seqn, mode, sib)
        if rng.random() < 0.25 and prog['nodes']['X'].get('params'):
            # the retried node declares a parameter whose name is also a local name inside the engine's retry code
            prog['nodes']['X']['params'][0][0] = rng.choice(['error', 'exc', 'attempts', 'delay', 'result', 'retry_policy'])
            acc.counters['odd_param_name_carriers'] = acc.counters.get('odd_param_name_carriers', 0) + 1
        if rng.random() < 0.2 and prog['nodes']['X'].get('kind', 'plain') == 'plain' and prog['nodes']['X'].get('params'):
            # the retried node is a build_node() derivative whose retry settings come from attrs=...
            gen.add_generics(prog, rng, p=1.0, only='X')
            acc.counters['generic_retry_carriers'] = acc.counters.get('generic_retry_carriers', 0) + 1
        acc.programs += 1
        built = harness.Built(prog)
        for s in range(nsched):
            case = base_case(prog, [['r0', 0]], rng)
            case['ctl']['timer_bias'] = rng.choice([0.1, 0.5, 0.9])
            res = cases.run_case(case, built)
            acc.add(case, res, nontrivial_feature=True)
            acc.counters['configs_run'] = acc.counters.get('configs_run', 0) + 1
        built.close()
    # plus grammar programs with heavy retry use
    nprog = 40 if tier == 'quick' else 600
    for _ in range(nprog):
        prog = gen_prog(rng, prop)
        _tagcount(acc, prog)
        acc.programs += 1
        built = harness.Built(prog)
        for val in rng.sample([0, 1, 2, 3], 2):
            for s in range(3):
                case = base_case(prog, [['r0', val]], rng)
                acc.add(case, cases.run_case(case, built), nontrivial_feature='retry' in gen.features(prog))
        built.close()
    r = acc.result()
    return r


RULES['C12'] = ('enumerated retry configurations: attempts {None,1,2,3,4} x delay {None,0,0.3} x exceptions '
                '{None,(E1,),(E1,E2)} x use_default x every per-attempt outcome sequence of length <= attempts over '
                '{E1,E2,E1Sub,EOther,Fatal(BaseException)} followed by success, on a node placed in three carrier DAGs '
                '(chain, with a slow / failing sibling, first one-of candidate, inside / start of / read from a recurrent subgraph, shared by two one-of candidates) in every execution mode (thorough: all '
                'configurations; quick: a seeded stratified sample), plus grammar programs with heavy retry use. Oracle: '
                'attempt count, kwargs of every attempt and of get_default, exact virtual-time gap before each re-attempt, '
                'node outcome, lifecycle events per attempt. Non-trivial: >= 2 choice points.')


# ----------------------------------------------------------------------------------------------
# C13: cancellation at every step
# ----------------------------------------------------------------------------------------------

def work_c13(prop, tier, seed, widx, nworkers):
    rng = random.Random(f'{prop}-{seed}-{widx}')
    nprog, nsched = BUDGET[prop][0 if tier == 'quick' else 1]
    acc = Acc(prop)
    for _ in range(nprog):
        prog = gen_prog(rng, prop, hostile_ok=False)
        _tagcount(acc, prog)
        acc.programs += 1
        built = harness.Built(prog, store=True)
        val = rng.choice([0, 1, 2, 3])
        for s in range(nsched):
            base = base_case(prog, [['r0', val]], rng, store=True, gate_saves=rng.choice([0.0, 0.5]))
            base['pool_cap'] = rng.choice([None, None, 1, 1, 2])     # bounded pools: jobs may still be queued at the end
            res0 = cases.run_case(base, built)
            acc.add(base, res0)
            L = res0['stats']['steps']
            if res0['stats'].get('outcome_class', (None,))[0] is None:
                continue
            for k in range(1, L + 1):
                case = copy.deepcopy(base)
                case['ctl']['cancel_at'] = {'0': k}
                res = cases.run_case(case, built)
                acc.add(case, res)
        built.close()
        # early end caused by an event manager that raises while a second manager's callback is suspended
        built2 = harness.Built(prog, events=True, store=False, events2=True)
        for name in ('node_start', 'node_complete'):
            for k in range(3):
                case = base_case(prog, [['r0', val]], rng, events2=True, gate_events2=rng.choice([0.5, 1.0]),
                                 collab_faults=[[name, k]], placement=f'collab:{name}:{k}')
                case.pop('pool_cap', None)
                res = cases.run_case(case, built2)
                acc.add(case, res)
                acc.counters['manager_fault_cases'] = acc.counters.get('manager_fault_cases', 0) + 1
        built2.close()
    return acc.result()


RULES['C13'] = ('crash-point enumeration: for each grammar program x schedule, the uncancelled run is executed, then the '
                'same schedule is re-run with the caller\'s task cancelled at EVERY loop step 1..L; after the run task is '
                'done the loop is drained (remaining completions released one by one until idle). Monitors: no node body / '
                'executor submission / event callback / artifact save / default call recorded after run returned or raised; '
                'no task pending after the drain; delivered cancellation surfaces as CancelledError only; no hang. Every '
                'non-cancelled run of every other check is monitored for post-end starts as well. Non-trivial: >= 2 choice '
                'points; distinct by (program, schedule parameters, cancel step).')
