"""CLI: ./check <PROP> [--tier quick|thorough] [--seed N] | ./check replay <path>

Exit codes: 0 held on everything explored (KNOWN-FINDING lines allowed), 1 VIOLATION,
2 INCONCLUSIVE (worker died / timed out / observation floor not met)."""
from __future__ import annotations

import importlib
import json
import os
import subprocess
import sys
import time

VERIF = os.path.dirname(os.path.dirname(os.path.abspath(__file__)))
REPO = os.environ.get('VERIF_REPO', '/repo')
PY = os.environ.get('VERIF_PYTHON', '/venv/bin/python')
NWORKERS = int(os.environ.get('VERIF_WORKERS', '16'))

# property -> (module, function, level)
WORKERS = {
    'C01': ('rv.props', 'work_generic', 'exploration'),
    'C02': ('rv.props2', 'work_c02', 'fault_enumeration'),
    'C03': ('rv.props', 'work_generic', 'exploration'),
    'C04': ('rv.props', 'work_generic', 'exploration'),
    'C05': ('rv.props', 'work_generic', 'exploration'),
    'C06': ('rv.props2', 'work_c06', 'exploration'),
    'C07': ('rv.props2', 'work_c07', 'exploration'),
    'C08': ('rv.props2', 'work_c08', 'exploration'),
    'C09': ('rv.props', 'work_generic', 'exploration'),
    'C10': ('rv.props', 'work_generic', 'exploration'),
    'C11': ('rv.props', 'work_generic', 'exploration'),
    'C12': ('rv.props2', 'work_c12', 'exploration'),
    'C13': ('rv.props2', 'work_c13', 'fault_enumeration'),
    'C14': ('rv.props', 'work_generic', 'exploration'),
    'C15': ('rv.static_props', 'work_c15', 'exploration'),
    'C16': ('rv.static_props', 'work_c16', 'exploration'),
    'C17': ('rv.realmode', 'work_c17', 'exploration'),
    'C18': ('rv.fsstore', 'work_c18', 'exploration'),
    'C19': ('rv.props', 'work_generic', 'exploration'),
    'C20': ('rv.static_props', 'work_c20', 'exploration'),
}

RULES = {}   # filled by modules through RULE attribute


def load_known():
    p = os.path.join(VERIF, 'known_findings.json')
    if os.environ.get('VERIF_NO_KNOWN') or not os.path.exists(p):   # calibration aid: report everything
        return {'findings': [], 'fixed': []}
    return json.load(open(p))


def attributed(f, prop, known):
    tags = set(f.get('tags') or [])
    for k in known['findings']:
        if k.get('status', 'open') != 'open':
            continue
        if prop not in k['properties']:
            continue
        if k['family'] in tags and f['kind'] in k['kinds']:
            return k
    return None


def env_for(hashseed):
    env = dict(os.environ)
    env['PYTHONHASHSEED'] = str(hashseed)
    env['PYTHONPATH'] = VERIF + os.pathsep + REPO
    env['PYTHONDONTWRITEBYTECODE'] = '1'
    env['ML_PIPELINE_ENGINE_VERIF'] = '1'
    env['VERIF_REPO'] = REPO
    return env


def worker_main(argv):
    prop, tier, seed, widx, nworkers, out = argv
    mod, fn, _ = WORKERS[prop]
    m = importlib.import_module(mod)
    res = getattr(m, fn)(prop, tier, int(seed), int(widx), int(nworkers))
    res['hashseed'] = os.environ.get('PYTHONHASHSEED')
    with open(out, 'w') as fh:
        json.dump(res, fh, default=_jd)
    return 0


def _jd(o):
    if isinstance(o, (set, frozenset)):
        return sorted(o, key=str)
    if isinstance(o, tuple):
        return list(o)
    return repr(o)


def ensure_deps():
    """jsonschema for evidence validation (optional: validation is skipped if unavailable)."""
    deps = os.path.join(VERIF, '.deps')
    if deps not in sys.path:
        sys.path.insert(0, deps)
    try:
        import jsonschema  # noqa: F401
        return True
    except Exception:  # noqa: BLE001
        return False


def run_check(prop, tier, seed):
    t0 = time.time()
    work = os.path.join(VERIF, '.work', f'{prop}-{os.getpid()}')
    os.makedirs(work, exist_ok=True)
    os.makedirs(os.path.join(VERIF, 'evidence'), exist_ok=True)
    os.makedirs(os.path.join(VERIF, 'replays'), exist_ok=True)
    mod, fn, level = WORKERS[prop]
    m = importlib.import_module(mod)
    nworkers = getattr(m, 'NWORKERS', {}).get(prop, NWORKERS)
    procs = []
    for w in range(nworkers):
        out = os.path.join(work, f'w{w}.json')
        # hash seeds: a real schedule dimension (set iteration order inside the engine)
        hs = (seed * 31 + w * 7 + 1) % 4294967295 if w % 4 else 0
        p = subprocess.Popen([PY, '-m', 'rv.runner', '--worker', prop, tier, str(seed), str(w),
                              str(nworkers), out], env=env_for(hs), cwd=VERIF,
                             stdout=subprocess.PIPE, stderr=subprocess.PIPE)
        procs.append((w, p, out, hs))
    timeout = 3600 if tier == 'quick' else 6 * 3600
    results = []
    dead = []
    for w, p, out, hs in procs:
        try:
            so, se = p.communicate(timeout=max(10, timeout - (time.time() - t0)))
        except subprocess.TimeoutExpired:
            p.kill()
            dead.append((w, 'watchdog timeout'))
            continue
        if p.returncode != 0 or not os.path.exists(out):
            dead.append((w, (se or b'').decode(errors='replace')[-1500:]))
            continue
        r = json.load(open(out))
        r['hashseed'] = hs
        results.append(r)
    import shutil
    shutil.rmtree(work, ignore_errors=True)
    return finish(prop, tier, seed, level, results, dead, t0, m)


def finish(prop, tier, seed, level, results, dead, t0, m):
    known = load_known()
    evaluations = sum(r['evaluations'] for r in results)
    nontrivial = set()
    for r in results:
        nontrivial.update(r['nontrivial'])
    counters = {}
    tagcount = {}
    for r in results:
        for k, v in r.get('counters', {}).items():
            counters[k] = counters.get(k, 0) + v
        for k, v in r.get('tagcount', {}).items():
            tagcount[k] = tagcount.get(k, 0) + v
    samples = []
    for r in results:
        samples.extend(r.get('samples', [])[:1])
    samples = samples[:4]
    violations = []
    known_hits = {}
    for r in results:
        for f in r['findings']:
            f['hashseed'] = r['hashseed']
            k = attributed(f, prop, known)
            if k is not None:
                known_hits[k['id']] = known_hits.get(k['id'], 0) + 1
            else:
                violations.append(f)
    # witnesses of open known findings for this property
    kf_lines = []
    for k in known['findings']:
        if k.get('status', 'open') != 'open' or prop not in k['properties']:
            continue
        hits = known_hits.get(k['id'], 0)
        wfile = (k.get('witness') or {}).get(prop)
        if wfile:
            st = run_witness(k, prop, wfile)
            state = 'witness reproduced' if st['reproduced'] else f"witness NOT reproduced ({st['why']})"
            for f in st['other']:
                kk = attributed(f, prop, known)
                if kk is None:
                    violations.append(f)
                else:
                    known_hits[kk['id']] = known_hits.get(kk['id'], 0) + 1
        else:
            state = 'no witness for this property'
        kf_lines.append(f"KNOWN-FINDING: property={prop} {k['id']} family={k['family']} "
                        f"[{state}; attributed hits in this run: {hits}] {k['mechanism']}")
    for line in kf_lines:
        print(line)
    # witnesses of repaired defects of this property: deterministic regression replays (a fixed entry suppresses
    # nothing - if the defect returns, its witness is a violation again)
    import glob
    replayed = 0
    for wpath in sorted(glob.glob(os.path.join(VERIF, 'witnesses', 'D*.json'))):
        try:
            w = json.load(open(wpath))
        except Exception:  # noqa: BLE001
            continue
        if w.get('property') != prop or 'case' not in w or not w.get('engine'):
            continue
        st = run_witness({'kinds': []}, prop, os.path.relpath(wpath, VERIF))
        if st['why'].startswith('witness run failed'):
            dead.append((w.get('id'), st['why']))
            continue
        replayed += 1
        for f in st['other']:
            f['detail'] = dict(f.get('detail') or {}, regression_of=w.get('id'))
            f['hashseed'] = w.get('hashseed', 0)
            # the witness program may also carry a recorded finding of ANOTHER mechanism (same attribution rule as for
            # every generated case: family tag + kind + property); everything else is the defect coming back
            kk = attributed(f, prop, known)
            if kk is None:
                violations.append(f)
            else:
                known_hits[kk['id']] = known_hits.get(kk['id'], 0) + 1
    counters['fixed_witnesses_replayed'] = replayed
    floors = getattr(m, 'FLOORS', {}).get(prop, {})
    floor_fail = [f'{k}={counters.get(k, 0)}<{v}' for k, v in floors.items() if counters.get(k, 0) < v]
    # replays
    vlines = []
    seen_kinds = {}
    per_tag = {}
    table = {}
    for f in violations:
        key = (f['kind'], ','.join(f.get('tags') or []))
        table[key] = table.get(key, 0) + 1
    if os.environ.get('VERIF_DUMP'):
        with open(os.environ['VERIF_DUMP'], 'a') as fh:
            for (kind, tg), n in table.items():
                fh.write(json.dumps({'prop': prop, 'tier': tier, 'seed': seed, 'kind': kind, 'tags': tg, 'n': n}) + '\n')
    for (kind, tg), n in sorted(table.items(), key=lambda kv: -kv[1])[:40]:
        print(f'  [{n:5d}] kind={kind} tags={tg or "-"}')
    _occ = {}
    for f in violations:
        tk = (f['kind'], ','.join(f.get('tags') or []))
        f['_occ'] = _occ[tk] = _occ.get(tk, 0) + 1
    order = sorted(range(len(violations)), key=lambda i: (violations[i]['_occ'], i))
    for i in order:
        f = violations[i]
        key = f['kind']
        seen_kinds[key] = seen_kinds.get(key, 0) + 1
        tkey = (f['kind'], ','.join(f.get('tags') or []))
        per_tag[tkey] = per_tag.get(tkey, 0) + 1
        if per_tag[tkey] > 2 or len(vlines) >= 40:
            continue
        path = os.path.join(VERIF, 'replays', f'{prop}_{f["kind"]}_{i}.json')
        with open(path, 'w') as fh:
            json.dump({'property': prop, 'kind': f['kind'], 'detail': f['detail'], 'tags': f.get('tags'),
                       'hashseed': f.get('hashseed'), 'case': f.get('case'),
                       'engine': WORKERS[prop][0]}, fh, indent=1, default=_jd)
        vlines.append(f'VIOLATION property={prop} replay={path}')
        if os.environ.get('VERIF_VERBOSE'):
            print(f'  kind={f["kind"]} tags={f.get("tags")} detail={json.dumps(f["detail"], default=_jd)[:400]}')
    for line in vlines:
        print(line)
    wall = time.time() - t0
    rule = getattr(m, 'RULES', {}).get(prop) or getattr(m, 'RULE', '')
    cov = {
        'evaluations': evaluations,
        'distinct_nontrivial': len(nontrivial),
        'rule': rule,
        'samples': samples or [{'note': 'no sample collected'}],
        'programs': sum(r.get('programs', 0) for r in results),
        'exhaustive': False,
        'counters': counters,
        'program_tag_shares': tagcount,
        'hashseeds': sorted({r['hashseed'] for r in results}),
        'workers_ok': len(results), 'workers_dead': len(dead),
        'known_finding_hits': known_hits,
        'violation_kinds': seen_kinds,
        'floors': floors,
    }
    ev = {'property_id': prop, 'tier': tier, 'seed': seed, 'level': level, 'coverage': cov,
          'assumptions': getattr(m, 'ASSUMPTIONS', {}).get(prop, []) + COMMON_ASSUMPTIONS,
          'wall_s': round(wall, 2), 'violations': len(violations)}
    evp = os.path.join(VERIF, 'evidence', f'{prop}.json')
    with open(evp, 'w') as fh:
        json.dump(ev, fh, indent=1, default=_jd)
    if ensure_deps():
        import jsonschema
        schema = json.load(open('/root/.vp/EVIDENCE.schema.json')) if os.path.exists(
            '/root/.vp/EVIDENCE.schema.json') else None
        if schema:
            try:
                jsonschema.validate(json.load(open(evp)), schema)
            except Exception as e:  # noqa: BLE001
                print(f'INCONCLUSIVE property={prop} reason=evidence does not validate: {str(e)[:200]}')
                return 2
    print(f'{prop} tier={tier} seed={seed}: evaluations={evaluations} distinct_nontrivial={len(nontrivial)} '
          f'programs={cov["programs"]} violations={len(violations)} known_hits={known_hits} '
          f'wall={wall:.1f}s')
    if violations:
        return 1
    if dead:
        print(f'INCONCLUSIVE property={prop} reason={len(dead)} worker(s) failed: {dead[0][1][-600:]}')
        return 2
    if floor_fail or evaluations == 0 or len(nontrivial) < 2:
        print(f'INCONCLUSIVE property={prop} reason=observation floor not met: {floor_fail} '
              f'evaluations={evaluations} nontrivial={len(nontrivial)}')
        return 2
    return 0


COMMON_ASSUMPTIONS = [
    'CPython 3.12 asyncio BaseEventLoop semantics; clock, selector and executors substituted (DESIGN 3.3)',
    'generated node bodies are pure functions of their arguments',
    'verdict = held on the executions produced, not a proof',
]


def run_witness(k, prop, wfile):
    """Re-execute the witness of a known finding in a fresh process."""
    path = os.path.join(VERIF, wfile)
    hs = json.load(open(path)).get('hashseed', 0)
    out = subprocess.run([PY, '-m', 'rv.runner', '--witness', path, prop], env=env_for(hs or 0), cwd=VERIF,
                         capture_output=True, timeout=600)
    try:
        res = json.loads(out.stdout.decode().strip().splitlines()[-1])
    except Exception:  # noqa: BLE001
        return {'reproduced': False, 'why': 'witness run failed: ' + out.stderr.decode()[-300:], 'other': []}
    kinds = [f['kind'] for f in res]
    rep = any(kk in k['kinds'] for kk in kinds)
    other = []
    for f in res:
        if f['kind'] not in k['kinds']:
            f['tags'] = f.get('tags') or []
            other.append(f)
    return {'reproduced': rep, 'why': f'kinds seen: {kinds}', 'other': other}


def witness_main(path, prop):
    w = json.load(open(path))
    eng = w.get('engine', 'rv.props')
    fs = execute_case_file(w, eng)
    out = [{'kind': f['kind'], 'detail': f['detail'], 'prop': f['prop'], 'tags': w.get('tags') or
            (w.get('case', {}).get('prog', {}) or {}).get('tags', []), 'case': w.get('case')}
           for f in fs if prop in f['prop']]
    print(json.dumps(out, default=_jd))
    return 0


def execute_case_file(w, eng):
    """Run the case stored in a replay / witness file; returns findings."""
    if eng in ('rv.props', 'rv.props2'):
        from rv import cases
        c = w['case']
        runner = c.get('runner')
        if runner:
            m = importlib.import_module('rv.props2')
            return getattr(m, runner)(c)
        res = cases.run_case(c, keep_obs=bool(os.environ.get('VERIF_TRACE')))
        if os.environ.get('VERIF_TRACE'):
            obs = res['obs']
            for r in obs.trace:
                d = {k: v for k, v in r.items() if k not in ('k', 'run', 'node', 'step', 'vt', 'ctxrun', 'engine_id')}
                print(f"  {r['step']:4d} {r['vt']:6.2f} {r['run']} {r['k']:22s} {str(r['node']):6s} {str(d)[:int(os.environ.get('VERIF_TRACE_W', '150'))]}")
            for ro in obs.runs:
                print('  RUN', ro.tag, ro.outcome, repr(ro.value)[:200], repr(ro.error)[:200], repr(ro.raised)[:100])
                print('  EXP', repr(res['refs'][ro.tag].outcome)[:300])
            print('  verdict', obs.verdict, 'stuck', obs.stuck)
        return res['findings']
    m = importlib.import_module(eng)
    return m.replay_case(w['case'])


def replay_main(path):
    w = json.load(open(path))
    hs = str(w.get('hashseed', 0) or 0)
    if os.environ.get('PYTHONHASHSEED') != hs or os.environ.get('RV_REPLAY_CHILD') != '1':
        env = env_for(hs)
        env['RV_REPLAY_CHILD'] = '1'
        return subprocess.call([PY, '-m', 'rv.runner', 'replay', path], env=env, cwd=VERIF)
    fs = execute_case_file(w, w.get('engine', 'rv.props'))
    prop = w.get('property')
    hit = [f for f in fs if prop in f['prop']]
    for f in hit:
        print(f'REPRODUCED property={prop} kind={f["kind"]} detail={json.dumps(f["detail"], default=_jd)[:600]}')
    if not hit:
        print(f'NOT-REPRODUCED property={prop} (other findings: {[f["kind"] for f in fs]})')
    return 1 if hit else 0


def main(argv):
    if argv and argv[0] == '--worker':
        return worker_main(argv[1:])
    if argv and argv[0] == '--witness':
        return witness_main(argv[1], argv[2])
    if argv and argv[0] == 'replay':
        return replay_main(argv[1])
    prop = argv[0]
    tier = os.environ.get('VERIF_TIER', 'quick')
    seed = int(os.environ.get('VERIF_SEED', '0'))
    i = 1
    while i < len(argv):
        if argv[i] == '--tier':
            tier = argv[i + 1]
            i += 2
        elif argv[i] == '--seed':
            seed = int(argv[i + 1])
            i += 2
        elif argv[i] == '--replay':
            return replay_main(argv[i + 1])
        else:
            i += 1
    if tier not in ('quick', 'thorough'):
        tier = 'quick'
    if prop not in WORKERS:
        print(f'unknown property {prop}')
        return 2
    sys.path.insert(0, VERIF)
    return run_check(prop, tier, seed)


if __name__ == '__main__':
    sys.exit(main(sys.argv[1:]))
