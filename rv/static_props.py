"""C15 (build_dag faithful), C16 (invalid declarations rejected), C20 (viewer projection).

These monitor the builder / viewer on thousands of generated declaration sets; the oracle is an
independent translation of the IR (never the built DAG)."""
from __future__ import annotations

import copy
import json
import random
import re
import sys
import types

from rv import gen, harness, materialize
from rv.monitors import F
from rv.props import Acc

RULES = {}
ASSUMPTIONS = {}


# ----------------------------------------------------------------------------------------------
# decorated programs: naming / type / doc variants and build_node generics
# ----------------------------------------------------------------------------------------------

def decorate(prog, rng, custom_types=True):
    prog = copy.deepcopy(prog)
    used_names = set()
    for nid in prog['order']:
        n = prog['nodes'][nid]
        r = rng.random()
        if r < 0.15:
            n['nm'] = 'none'
        elif r < 0.3:
            n['nm'] = ['custom', f'custom_{nid}.v{rng.randint(1, 3)}']
        r = rng.random()
        if r < 0.1:
            n['node_type'] = None
        elif r < 0.25 and custom_types:
            n['node_type'] = rng.choice(['ml_model', 'datasource', 'feature', 'generic_x'])
        elif r < 0.35:
            n['node_type'] = rng.choice(['generic', 'recurrent', 'processor'])
        elif r < 0.45:
            n['node_type'] = ['enum', rng.choice(['generic', 'recurrent', 'processor'])]   # NodeType member, not its value
        if rng.random() < 0.4:
            n['doc'] = f'Doc of {nid}: ' + rng.choice(['computes', 'loads', 'scores']) + ' something'
        if rng.random() < 0.2:
            n['method_doc'] = f'method doc of {nid}'
        if rng.random() < 0.3:
            n['verbose_name'] = f'Verbose {nid}'
    # subclass nodes: a node class deriving from another node class of the same pipeline
    plain = [nid for nid in prog['order'] if nid != prog['input'] and prog['nodes'][nid].get('kind', 'plain') == 'plain'
             and not prog['nodes'][nid].get('recurrent') and not prog['nodes'][nid].get('start_of')]
    for nid in plain:
        n = prog['nodes'][nid]
        earlier = [b for b in plain if prog['order'].index(b) < prog['order'].index(nid)
                   and not prog['nodes'][b].get('base')]
        if earlier and rng.random() < 0.12:
            n['base'] = rng.choice(earlier)
            n['explicit_tags'] = True
            if n.get('nm') == 'none':
                n['nm'] = 'id'
    # generics: turn some plain, non-start, non-input nodes into build_node derivatives; several
    # specialisations may share one generic base class
    bases = {}
    for nid in list(prog['order']):
        n = prog['nodes'][nid]
        if nid == prog['input'] or n.get('start_of') or n.get('kind') == 'dest' or n.get('nm', 'id') != 'id' \
                or n.get('base') or any(prog['nodes'][x].get('base') == nid for x in prog['nodes']) \
                or n.get('generic_of') or n.get('generic_base'):
            continue
        if n.get('params') and all(m[0] in ('in', 'sw', 'oneof', 'rec') for _, m in n['params']) and rng.random() < 0.2:
            sig = (tuple(p for p, _ in n['params']), n.get('mode'))
            if sig in bases and rng.random() < 0.6:
                n['generic_of'] = bases[sig]
                continue
            base_id = f'G{nid[1:]}'
            base = copy.deepcopy(n)
            base['id'] = base_id
            base['generic_base'] = True
            base['nm'] = ['custom', f'base_{nid}']
            prog['nodes'][base_id] = base
            n['generic_of'] = base_id
            idx = prog['order'].index(nid)
            prog['order'].insert(idx, base_id)
            bases[sig] = base_id
    return prog


def engine_id(prog, nid, modname):
    n = prog['nodes'][nid]
    if n.get('generic_of'):
        b = prog['nodes'][n['generic_of']]
        nt = b['node_type'] if 'node_type' in b else 'processor'
        if isinstance(nt, list):
            nt = nt[1]
        if n.get('inherit_name'):
            bn = b.get('nm', 'id')
            return f'{nt or "node"}__{bn[1] if isinstance(bn, list) else b["id"]}'
        return f'{nt or "node"}__{nid}'
    x = n
    while 'node_type' not in x and x.get('base') in prog['nodes']:
        x = prog['nodes'][x['base']]
    nt = x['node_type'] if 'node_type' in x else 'processor'
    if isinstance(nt, list):
        nt = nt[1]
    nm = n.get('nm', 'id')
    if nm == 'id':
        name = nid
    elif nm == 'none':
        name = f'{modname}_{nid}'.replace('.', '_')
    else:
        name = nm[1]
    return f'{nt or "node"}__{name}'


def expected_relation(prog, modname):
    """Independent translation IR -> (nodes{id: attrs}, edges[(u, v, attrs)], node_map ids)."""
    eid = lambda n: engine_id(prog, n, modname)  # noqa: E731
    nodes = {}
    edges = []
    real = set()
    inp = prog['input']
    out = prog['output']
    seen = set()
    st = [out]
    unnamed = 0

    def addn(i, **attrs):
        nodes.setdefault(i, {}).update(attrs)

    real.add(inp)
    while st:
        cur = st.pop()
        if cur in seen:
            continue
        seen.add(cur)
        real.add(cur)
        n = prog['nodes'][cur]
        marks = n.get('params', [])
        if not marks and cur != inp:
            addn(eid(inp))
            addn(eid(cur))
            edges.append((eid(inp), eid(cur), {}))
            st.append(inp)
        for idx, (pname, m) in enumerate(marks):
            k = m[0]
            if k == 'in':
                real.add(m[1])
                addn(eid(m[1]))
                addn(eid(cur))
                edges.append((eid(m[1]), eid(cur), {'kwarg_name': pname}))
                st.append(m[1])
            elif k == 'rec':
                _, start, dest, mx = m
                real.add(dest)
                addn(eid(dest), start_node=eid(start), max_iterations=mx)
                addn(eid(cur))
                edges.append((eid(dest), eid(cur), {'kwarg_name': pname}))
                st.append(dest)
            elif k == 'oneof':
                head = f'input_one_of__{idx}___{eid(cur)}'
                addn(head, is_oneof=True, oneof_nodes=[eid(c) for c in m[1]])
                edges.append((eid(inp), head, {}))
                for c in m[1]:
                    real.add(c)
                    addn(eid(c), is_oneof_child=True)
                    edges.append((eid(c), head, {}))
                    st.append(c)
                edges.append((head, eid(cur), {'kwarg_name': pname}))
            elif k == 'sw':
                _, name, decider, cs = m
                if name is None:
                    sw = f'switch__?{unnamed}'
                    unnamed += 1
                else:
                    sw = f'switch__{name}'
                real.add(decider)
                addn(sw, is_switch=True)
                edges.append((eid(decider), sw, {'is_switch': True}))
                st.append(decider)
                for lab, c in cs:
                    real.add(c)
                    edges.append((eid(c), sw, {'case_branch': lab}))
                    st.append(c)
                edges.append((sw, eid(cur), {'kwarg_name': pname}))
    for _, _, _ in []:
        pass
    for u, v, _ in edges:
        addn(u)
        addn(v)
    if out == inp and not nodes:
        addn(eid(inp))
    return nodes, edges, {eid(n): n for n in real}


def norm_attrs(d):
    return {str(getattr(k, 'value', k)): v for k, v in d.items()}


def compare_dag(prog, dag, modname):
    fs = []
    nodes, edges, nmap = expected_relation(prog, modname)
    g = dag.graph
    got_nodes = {n: norm_attrs(d) for n, d in g.nodes(data=True)}
    # map unnamed switch ids
    rename = {}
    unn = [n for n in nodes if n.startswith('switch__?')]
    if unn:
        cand = [n for n in got_nodes if re.fullmatch(r'switch__[0-9a-f]{8}', n) and n not in nodes]
        # match by (decider, consumer) signature
        def sig_exp(sw):
            return (sorted(u for u, v, a in edges if v == sw), sorted(v for u, v, a in edges if u == sw))

        def sig_got(sw):
            return (sorted(g.predecessors(sw)), sorted(g.successors(sw)))
        pool = list(cand)
        for sw in unn:
            for c in pool:
                if sig_exp(sw) == sig_got(c):
                    rename[sw] = c
                    pool.remove(c)
                    break
    nodes = {rename.get(n, n): a for n, a in nodes.items()}
    edges = [(rename.get(u, u), rename.get(v, v), a) for u, v, a in edges]
    if set(nodes) != set(got_nodes):
        fs.append(F(['C15'], 'node_set_differs', missing=sorted(set(nodes) - set(got_nodes))[:6],
                    extra=sorted(set(got_nodes) - set(nodes))[:6]))
    for n, a in nodes.items():
        if n in got_nodes and got_nodes[n] != a:
            fs.append(F(['C15'], 'node_attrs_differ', node=n, exp=a, got=got_nodes[n]))
    exp_e = {}
    for u, v, a in edges:
        if 'kwarg_name' not in a and a in exp_e.get((u, v), []):
            continue        # the same switch mark declared for two parameters: structural edges exist once
        exp_e.setdefault((u, v), []).append(a)
    got_e = {(u, v): norm_attrs(d) for u, v, d in g.edges(data=True)}
    for (u, v), lst in exp_e.items():
        if (u, v) not in got_e:
            fs.append(F(['C15'], 'edge_missing', edge=[u, v], exp=lst))
            continue
        if len(lst) > 1:
            # several parameter marks refer to the same upstream node.  The graph has one edge per node pair, so the
            # edge has to deliver to every declared parameter name (kwarg_name + extra_kwarg_names, each exactly
            # once) and must carry nothing else.
            got = dict(got_e[(u, v)])
            names = ([got.pop('kwarg_name')] if 'kwarg_name' in got else []) + list(got.pop('extra_kwarg_names', ()))
            declared = [a.get('kwarg_name') for a in lst]
            rest = {}
            for a in lst:
                rest.update({k: x for k, x in a.items() if k != 'kwarg_name'})
            if sorted(map(str, names)) != sorted(map(str, declared)) or got != rest:
                fs.append(F(['C15'], 'parallel_dependencies_merged', edge=[u, v], declared=lst, got=got_e[(u, v)]))
        elif got_e[(u, v)] != lst[0]:
            fs.append(F(['C15'], 'edge_attrs_differ', edge=[u, v], exp=lst[0], got=got_e[(u, v)]))
    for e in got_e:
        if e not in exp_e:
            fs.append(F(['C15'], 'edge_extra', edge=list(e), got=got_e[e]))
    exp_map = set(nmap)
    got_map = set(dag.node_map)
    if exp_map != got_map:
        fs.append(F(['C15'], 'node_map_keys_differ', missing=sorted(exp_map - got_map)[:6],
                    extra=sorted(got_map - exp_map)[:6]))
    mod = sys.modules.get(modname)
    for i, nid in nmap.items():
        if i in dag.node_map and mod is not None:
            if dag.node_map[i] is not getattr(mod, nid):
                fs.append(F(['C15'], 'node_map_wrong_class', node=i))
    if dag.input_node != engine_id(prog, prog['input'], modname) or \
            dag.output_node != engine_id(prog, prog['output'], modname):
        fs.append(F(['C15'], 'io_nodes_differ', got=[dag.input_node, dag.output_node]))
    # pool flags
    need_t = need_p = False
    for i, nid in nmap.items():
        n = prog['nodes'][nid]
        mode = n.get('mode')
        if n.get('generic_of') and not n.get('attrs_tags'):
            mode = prog['nodes'][n['generic_of']].get('mode')
        if mode in ('async', 'async_tagged'):
            continue
        if mode == 'inline':
            continue      # non_async: executed in place, uses no pool (the flag the engine computed before D41 was the defect)
        if mode == 'process':
            need_p = True
        else:
            need_t = True
    if (dag.is_process_pool_needed, dag.is_thread_pool_needed) != (need_p, need_t):
        fs.append(F(['C15', 'C17'], 'pool_flags_differ', got=[dag.is_process_pool_needed, dag.is_thread_pool_needed],
                    exp=[need_p, need_t]))
    return fs


def permuted(prog, rng):
    """Same declarations, permuted parameter order; isomorphic result expected."""
    p = copy.deepcopy(prog)
    for n in p['nodes'].values():
        if len(n.get('params', [])) > 1:
            rng.shuffle(n['params'])
    return p


def iso_check(dag1, dag2):
    import networkx as nx

    def nm(a, b):
        ka = {str(getattr(k, 'value', k)): v for k, v in a.items()}
        kb = {str(getattr(k, 'value', k)): v for k, v in b.items()}
        return ka == kb

    def em(a, b):
        return nm(a, b)
    g1 = dag1.graph.copy()
    g2 = dag2.graph.copy()
    for g in (g1, g2):
        for n in g.nodes:
            g.nodes[n]['__id'] = n if not n.startswith(('input_one_of__', 'switch__')) else n.split('__')[0]
    return nx.is_isomorphic(g1, g2, node_match=nm, edge_match=em)


def work_c15(prop, tier, seed, widx, nworkers):
    rng = random.Random(f'{prop}-{seed}-{widx}')
    nprog = 500 if tier == 'quick' else 6000
    acc = Acc(prop)
    harness.setup_engine()
    for i in range(nprog):
        hostile = rng.choice([None, None, None, None, 'dup_param'])      # not hostile any more (D33): a feature family
        base = gen.gen_program(rng, gen.profile(p_sw=0.25, p_oneof=0.25, p_rec=0.2, hostile=hostile))
        prog = decorate(base, rng)
        if rng.random() < 0.3:   # unnamed switches
            for n in prog['nodes'].values():
                for _, m in n.get('params', []):
                    if m[0] == 'sw' and rng.random() < 0.7:
                        m[1] = None
        if rng.random() < 0.25:
            add_second_rec(prog, rng)
        if rng.random() < 0.3:
            add_dest_reader(prog, rng)      # Input(Dest) next to RecurrentSubGraph(..., dest_node=Dest) in one node
        prog['tags'] = sorted(gen.analyze(prog))
        case = {'prog': prog, 'what': 'build'}
        fs = replay_case(case, rng=rng)
        acc.programs += 1
        acc.evaluations += 1
        feats = gen.features(prog)
        if feats & {'sw', 'oneof', 'rec'}:
            acc.nontrivial.add(int(materialize.prog_hash(prog)[:12], 16))
        key = ','.join(prog['tags']) or '-'
        acc.tagcount[key] = acc.tagcount.get(key, 0) + 1
        for f in fs:
            if prop in f['prop'] and len(acc.findings) < 60:
                acc.findings.append({'kind': f['kind'], 'detail': f['detail'], 'prop': f['prop'],
                                     'tags': prog['tags'], 'case': case})
        if len(acc.samples) < 1 and feats & {'sw', 'oneof'}:
            acc.samples.append({'source': materialize.render(prog)[-1800:], 'tags': prog['tags']})
    return acc.result()


def replay_case(case, rng=None):
    what = case.get('what')
    if what == 'build':
        return _c15_one(case['prog'], rng or random.Random(1))
    if what == 'c16':
        return _c16_one(case)
    if what == 'c20':
        return _c20_one(case['prog'])
    raise ValueError(what)


def _c15_one(prog, rng):
    st = harness.setup_engine()
    fs = []
    mod = materialize.load(prog)
    try:
        try:
            dag = st['build_dag'](input_node=getattr(mod, prog['input']), output_node=getattr(mod, prog['output']))
        except Exception as e:  # noqa: BLE001
            return [F(['C15', 'C16'], 'valid_program_rejected', err=repr(e)[:300])]
        fs += compare_dag(prog, dag, mod.__name__)
        # order independence: permuted parameter order -> attribute-preserving isomorphism
        p2 = permuted(prog, rng)
        mod2 = materialize.load(p2, name=mod.__name__ + '_perm')
        try:
            dag2 = st['build_dag'](input_node=getattr(mod2, p2['input']), output_node=getattr(mod2, p2['output']))
            # compare each against its own expectation, then shapes against each other
            fs += [dict(f, kind=f['kind'] + '_permuted') for f in compare_dag(p2, dag2, mod2.__name__)]
            if len(dag.graph) != len(dag2.graph) or dag.graph.number_of_edges() != dag2.graph.number_of_edges():
                fs.append(F(['C15'], 'order_dependent_shape', n1=len(dag.graph), n2=len(dag2.graph)))
        except Exception as e:  # noqa: BLE001
            fs.append(F(['C15', 'C16'], 'valid_program_rejected_permuted', err=repr(e)[:300]))
        finally:
            materialize.unload(mod2)
    finally:
        materialize.unload(mod)
    return fs


RULES['C15'] = ('grammar programs with every mark kind, decorated with naming variants (explicit / absent / custom name, '
                'custom / None / enum node_type), unnamed switches, build_node generics and (20%) duplicate-target '
                'parameters; the built DAG (node set, node attributes, edge set with kwarg_name / is_switch / case_branch, '
                'node_map identity, input/output ids, pool flags) is compared with an independent translation of the IR; '
                'each program is rebuilt with permuted parameter order and must match its own expectation and the same '
                'shape. Non-trivial: program contains a switch, one-of or recurrent mark; distinct by program hash.')


# ----------------------------------------------------------------------------------------------
# C16
# ----------------------------------------------------------------------------------------------

DEFECTS = ['generic_twin', 'generic_no_base', 'not_a_class', 'no_base', 'no_process', 'unannotated_param', 'unannotated_kwonly_param', 'no_annotations', 'generic_unbound',
           'dest_no_protocol', 'start_no_additional_data']


def inject(prog, nid, defect):
    """Return (mutated program, expected error class name) or None if the defect does not apply."""
    p = copy.deepcopy(prog)
    n = p['nodes'][nid]
    if defect == 'generic_twin':
        # a generic base class and its build_node() rebinding that inherits the base's name (same node id);
        # the un-rebound base is consumed as well and must still be rejected
        out = p['nodes'][p['output']]
        if not n.get('params') or n.get('generic_of') or n.get('generic_base') or n.get('base') or nid == p['input'] \
                or n.get('kind', 'plain') != 'plain' or n.get('start_of') or n.get('nm', 'id') != 'id' \
                or out.get('generic_of') or nid == p['output'] \
                or any(x.get('base') == nid for x in p['nodes'].values()):
            return None
        base = copy.deepcopy(n)
        base_id = 'T' + nid[1:]
        base['id'] = base_id
        base['generic_base'] = True
        base['nm'] = ['custom', 'twin_' + nid]
        p['nodes'][base_id] = base
        n['generic_of'] = base_id
        n['inherit_name'] = True
        p['order'].insert(p['order'].index(nid), base_id)
        pos = 0 if (sum(map(ord, nid)) % 2) else len(out['params'])
        out['params'].insert(pos, ['zt', ['in', base_id]])
        return p, 'NonRedefinedGenericTypeError'
    if defect == 'not_a_class':
        if any(x.get('base') == nid or x.get('generic_of') == nid for x in p['nodes'].values()):
            return None     # other classes derive from it: the module itself would not import
        n['raw_src'] = f'{nid} = rt.NotAClass({nid!r})'
        return p, 'IncorrectTypeClass'
    if defect == 'generic_no_base':
        # build_node() of a class that has a process method but not the node base class: the derivative is not a node
        if not n.get('params') or n.get('generic_of') or n.get('generic_base') or n.get('base') or nid == p['input'] \
                or n.get('kind', 'plain') != 'plain' or n.get('start_of') or n.get('recurrent') \
                or any(p['nodes'][x].get('base') == nid for x in p['nodes']):
            return None
        base_id = 'G' + nid[1:] + 'nb'
        base = copy.deepcopy(n)
        base.update(id=base_id, generic_base=True, base='object', nm=['custom', 'base_' + nid])
        p['nodes'][base_id] = base
        n['generic_of'] = base_id
        p['order'].insert(p['order'].index(nid), base_id)
        return p, 'IncorrectBaseClass'
    if defect == 'no_base':
        n['base'] = 'object'
        n.pop('recurrent', None)
        return p, 'IncorrectBaseClass'
    if defect == 'no_process':
        n['no_process'] = True
        return p, 'RunMethodExpectedError'
    if defect == 'unannotated_param':
        if not (n.get('params') or n.get('plain_params') or n.get('start_of')):
            return None     # no annotation at all: covered by 'no_annotations'
        n['unannotated_params'] = ['zz']
        return p, 'UndefinedParamAnnotation'
    if defect == 'unannotated_kwonly_param':
        if not (n.get('params') or n.get('plain_params') or n.get('start_of')):
            return None
        n['unannotated_kwonly'] = ['zk']
        return p, 'UndefinedParamAnnotation'
    if defect == 'no_annotations':
        if n.get('params') or n.get('plain_params') or n.get('start_of'):
            return None
        n['unannotated_params'] = ['zz']
        return p, 'UndefinedAnnotation'
    if defect == 'generic_unbound':
        if not n.get('params'):
            return None
        n['generic_base'] = True     # every mark becomes InputGeneric(...) and is never rebound
        return p, 'NonRedefinedGenericTypeError'
    if defect == 'dest_no_protocol':
        if n.get('kind') != 'dest':
            return None
        n['recurrent'] = False
        n['plain_body'] = True
        return p, 'IncorrectRecurrentMixinClass'
    if defect == 'start_no_additional_data':
        if not n.get('start_of'):
            return None
        n['no_additional_data'] = True
        return p, 'IncorrectParamsRecurrentNode'
    return None


def add_dest_reader(prog, rng):
    """A recurrent destination that is additionally read through a plain Input: either by its own consumer
    (listed before the RecurrentSubGraph mark) or by the output node (listed last)."""
    recs = [(nid, i, m) for nid in prog['order'] if nid in gen.reachable(prog)
            for i, (_, m) in enumerate(prog['nodes'][nid].get('params', [])) if m[0] == 'rec']
    if not recs:
        return
    nid, i, m = rng.choice(recs)
    n = prog['nodes'][nid]
    if n.get('generic_of') or n.get('generic_base'):
        return
    if rng.random() < 0.5:
        n['params'].insert(rng.randint(0, i), ['zr', ['in', m[2]]])
    else:
        out = prog['nodes'][prog['output']]
        if out.get('generic_of') or prog['output'] == m[2] or any(mm[0] == 'in' and mm[1] == m[2] for _, mm in out['params']):
            return
        out['params'].append(['zr', ['in', m[2]]])


def add_second_rec(prog, rng):
    """A second recurrent subgraph that shares its START node with an existing one but has its own destination
    (consumed by the output node or by the consumer of the first one)."""
    recs = [(nid, m) for nid in prog['order'] if nid in gen.reachable(prog)
            for _, m in prog['nodes'][nid].get('params', []) if m[0] == 'rec']
    if not recs:
        return
    nid, m = rng.choice(recs)
    start = m[1]
    host = prog['nodes'][rng.choice([nid, prog['output']])]
    if host.get('generic_of') or host.get('generic_base') or any(pn == 'zq' for pn, _ in host['params']):
        return
    k = 0
    while f'Q{k}' in prog['nodes']:
        k += 1
    did = f'Q{k}'
    prog['nodes'][did] = {'id': did, 'mode': rng.choice(['async', 'thread', 'inline']), 'kind': 'dest', 'recurrent': True,
                          'params': [['a', ['in', start]]], 'plan': {'start': start, 'want_iter': 0}}
    at = min(prog['order'].index(host['id']), len(prog['order']))
    prog['order'].insert(at, did)
    pos = rng.randint(0, len(host['params']))
    host['params'].insert(pos, ['zq', ['rec', start, did, rng.randint(1, 3)]])


def reach_kind(prog, nid):
    """Through which mark kinds is nid reached (for evidence: defect placement coverage)."""
    cons = gen.consumers(prog)
    return sorted({k for _, _, k in cons.get(nid, [])}) or ['output']


def _c16_one(case):
    st = harness.setup_engine()
    prog = case['prog']
    exp = case.get('expect')
    fs = []
    try:
        mod = materialize.load(prog)
    except Exception as e:  # noqa: BLE001
        return [F(['C16'], 'harness_materialisation_failed', err=repr(e)[:200])]
    try:
        try:
            dag = st['build_dag'](input_node=getattr(mod, prog['input']), output_node=getattr(mod, prog['output']))
        except Exception as e:  # noqa: BLE001
            name = type(e).__name__
            if exp is None:
                fs.append(F(['C16', 'C15'], 'valid_program_rejected', err=repr(e)[:300]))
            elif name != exp:
                fs.append(F(['C16'], 'wrong_rejection_error', exp=exp, got=name, defect=case.get('defect'),
                            at=case.get('at'), via=case.get('via')))
        else:
            if exp is not None:
                fs.append(F(['C16'], 'invalid_program_accepted', exp=exp, defect=case.get('defect'),
                            at=case.get('at'), via=case.get('via')))
            elif dag is None:
                fs.append(F(['C16'], 'no_dag_returned'))
    finally:
        materialize.unload(mod)
    return fs


def work_c16(prop, tier, seed, widx, nworkers):
    rng = random.Random(f'{prop}-{seed}-{widx}')
    nprog = 220 if tier == 'quick' else 2500
    acc = Acc(prop)
    harness.setup_engine()
    from ml_pipeline_engine.node import build_node
    from ml_pipeline_engine.node.errors import ClassExpectedError, RunMethodExpectedError
    for i in range(nprog):
        base = gen.gen_program(rng, gen.profile(p_sw=0.25, p_oneof=0.25, p_rec=0.25, p_markless=0.15,
                                                p_generic=rng.choice([0.0, 0.0, 0.2])))      # incl. generic start nodes of recurrent subgraphs
        prog = decorate(base, rng) if rng.random() < 0.5 else base
        if rng.random() < 0.5:
            add_dest_reader(prog, rng)
        if rng.random() < 0.4:
            add_second_rec(prog, rng)
        prog['tags'] = sorted(gen.analyze(prog))
        acc.programs += 1
        # valid direction
        case = {'prog': prog, 'what': 'c16', 'expect': None}
        fs = _c16_one(case)
        acc.evaluations += 1
        _collect(acc, prop, fs, case, prog)
        if fs:
            continue
        # every (node, applicable defect): thorough; quick samples 6 per program
        reach = [n for n in prog['order'] if n in gen.reachable(prog) and not prog['nodes'][n].get('generic_of')
                 and not prog['nodes'][n].get('generic_base')]
        combos = []
        for nid in reach:
            for d in DEFECTS:
                r = inject(prog, nid, d)
                if r is not None:
                    combos.append((nid, d, r))
        if tier == 'quick':
            rng.shuffle(combos)
            # always keep the rare defects
            rare = [c for c in combos if c[1] in ('dest_no_protocol', 'start_no_additional_data', 'no_annotations')]
            combos = rare[:3] + combos[:6]
        for nid, d, (p, exp) in combos:
            case = {'prog': p, 'what': 'c16', 'expect': exp, 'defect': d, 'at': nid, 'via': reach_kind(prog, nid)}
            fs = _c16_one(case)
            acc.evaluations += 1
            acc.nontrivial.add(hash((materialize.prog_hash(prog), nid, d)) & 0xFFFFFFFFFFFF)
            ck = f'defect_{d}'
            acc.counters[ck] = acc.counters.get(ck, 0) + 1
            for v in case['via']:
                acc.counters['via_' + v] = acc.counters.get('via_' + v, 0) + 1
            _collect(acc, prop, fs, case, p)
            if len(acc.samples) < 1:
                acc.samples.append({'defect': d, 'at': nid, 'via': case['via'], 'expected_error': exp,
                                    'source_tail': materialize.render(p)[-900:]})
    # the INPUT node is the start node of a recurrent subgraph: valid, and every defect on it is still rejected
    for mode in ('async', 'thread'):
        def N(i, **kw):
            d = {'id': i, 'mode': mode, 'params': [], 'kind': 'plain', 'plan': {}}
            d.update(kw)
            return d
        base = {'nodes': {'N0': N('N0', plain_params=['x'], start_of=True), 'N2': N('N2', params=[['a', ['in', 'N0']]]),
                          'N3': N('N3', params=[['a', ['in', 'N2']]], kind='dest', recurrent=True, plan={'start': 'N0', 'want_iter': 0}),
                          'N1': N('N1', params=[['a', ['rec', 'N0', 'N3', 2]]])},
                'order': ['N0', 'N2', 'N3', 'N1'], 'input': 'N0', 'output': 'N1', 'tags': []}
        case = {'prog': base, 'what': 'c16', 'expect': None}
        fs = _c16_one(case)
        acc.evaluations += 1
        _collect(acc, prop, fs, case, base)
        for nid in ('N0', 'N3'):
            for d in DEFECTS:
                r = inject(base, nid, d)
                if r is None:
                    continue
                p1, exp = r
                case = {'prog': p1, 'what': 'c16', 'expect': exp, 'defect': d, 'at': nid, 'via': ['input_is_start']}
                fs = _c16_one(case)
                acc.evaluations += 1
                acc.counters['input_start_defects'] = acc.counters.get('input_start_defects', 0) + 1
                _collect(acc, prop, fs, case, p1)
    # single-node pipelines (the input node is the output node): the same defects must be rejected there too
    for mode in ('async', 'thread', 'inline'):
        single = {'nodes': {'N0': {'id': 'N0', 'mode': mode, 'params': [], 'kind': 'plain', 'plan': {}, 'plain_params': ['x']}},
                  'order': ['N0'], 'input': 'N0', 'output': 'N0', 'tags': []}
        for d in DEFECTS:
            r = inject(single, 'N0', d)
            if r is None:
                continue
            p1, exp = r
            case = {'prog': p1, 'what': 'c16', 'expect': exp, 'defect': d, 'at': 'N0', 'via': ['single_node']}
            fs = _c16_one(case)
            acc.evaluations += 1
            acc.counters['single_node_defects'] = acc.counters.get('single_node_defects', 0) + 1
            _collect(acc, prop, fs, case, p1)
    # build_node checks
    class _NoProc:
        pass
    for bad, exp in ((object(), ClassExpectedError), (lambda: 1, ClassExpectedError), (_NoProc, RunMethodExpectedError)):
        acc.evaluations += 1
        try:
            build_node(bad)
        except Exception as e:  # noqa: BLE001
            if type(e) is not exp:
                acc.findings.append({'kind': 'wrong_rejection_error', 'detail': {'exp': exp.__name__, 'got': type(e).__name__,
                                                                                'defect': 'build_node'},
                                     'prop': ['C16'], 'tags': [], 'case': None})
        else:
            acc.findings.append({'kind': 'invalid_program_accepted', 'detail': {'defect': 'build_node', 'exp': exp.__name__},
                                 'prop': ['C16'], 'tags': [], 'case': None})
    return acc.result()


def _collect(acc, prop, fs, case, prog):
    for f in fs:
        if prop in f['prop'] and len(acc.findings) < 60:
            acc.findings.append({'kind': f['kind'], 'detail': f['detail'], 'prop': f['prop'],
                                 'tags': prog.get('tags', []), 'case': case})


RULES['C16'] = ('grammar programs (all mark kinds, naming variants, generics): each must build; then a single defect out of '
                '{not a class, no node base, no callable process, un-annotated parameter, no annotations at all, generic '
                'input never rebound, recurrent destination without the protocol, recurrent start without additional_data} '
                'is injected at a reachable node (thorough: every applicable (node, defect) pair; quick: a sample that always '
                'keeps the rare defects) and build_dag must raise the documented error class; build_node is probed with a '
                'non-class and a class without process. Counters record through which mark kinds the defective node is '
                'reached. Non-trivial/distinct: distinct (program, node, defect).')


# ----------------------------------------------------------------------------------------------
# C20
# ----------------------------------------------------------------------------------------------

def _viewer():
    if 'importlib_resources' not in sys.modules:
        stub = types.ModuleType('importlib_resources')
        stub.path = lambda *a, **k: (_ for _ in ()).throw(RuntimeError('stub'))
        sys.modules['importlib_resources'] = stub
    from ml_pipeline_viewer.visualization.dag import GraphConfigImpl
    return GraphConfigImpl


ENUM_TYPES = ['processor', 'generic', 'switch', 'input_one_of', 'recurrent']


def by_prefix(node_id):
    for t in ENUM_TYPES:
        if node_id.startswith(t):
            return t
    return None


def _c20_one(prog):
    import inspect
    from rv.cases import snapshot_dag
    st = harness.setup_engine()
    GraphConfigImpl = _viewer()
    fs = []
    mod = materialize.load(prog)
    try:
        try:
            if prog.get('single'):
                from ml_pipeline_engine.dag_builders.annotation.builder import build_dag_single
                dag = build_dag_single(getattr(mod, prog['input']))
            else:
                dag = st['build_dag'](input_node=getattr(mod, prog['input']), output_node=getattr(mod, prog['output']))
        except Exception as e:  # noqa: BLE001
            return [F(['C16'], 'valid_program_rejected', err=repr(e)[:300])]
        before = snapshot_dag(dag)
        try:
            cfg = GraphConfigImpl(dag).generate(name='g', verbose_name='G')
            d = cfg.as_dict()
        except Exception as e:  # noqa: BLE001
            return [F(['C20'], 'generate_raised', err=repr(e)[:200])]
        after = snapshot_dag(dag)
        if before != after:
            fs.append(F(['C20', 'C07'], 'dag_modified_by_viewer'))
        try:
            json.loads(json.dumps(d, ensure_ascii=False))
        except Exception as e:  # noqa: BLE001
            fs.append(F(['C20'], 'not_json_serialisable', err=repr(e)[:200]))
        g = dag.graph
        ids = [n['id'] for n in d['nodes']]
        if sorted(ids) != sorted(g.nodes) or len(ids) != len(set(ids)):
            fs.append(F(['C20'], 'node_entries_differ', missing=sorted(set(g.nodes) - set(ids))[:5],
                        extra=sorted(set(ids) - set(g.nodes))[:5], dup=len(ids) - len(set(ids))))
        types_seen = set()
        for n in d['nodes']:
            i = n['id']
            cls = dag.node_map.get(i)
            if cls is None:
                exp_t = by_prefix(i)
                if not n['is_virtual'] or n['type'] != exp_t or n.get('data') is not None:
                    fs.append(F(['C20'], 'virtual_node_entry_wrong', node=i, got=n))
                types_seen.add(exp_t)
            else:
                method = cls().process
                exp = {'name': cls.name, 'verbose_name': cls.verbose_name,
                       'doc': inspect.getdoc(method) or inspect.getdoc(cls)}
                data = n.get('data') or {}
                bad = n['is_virtual'] or n['type'] != cls.node_type or any(data.get(k) != v for k, v in exp.items())
                if bad:
                    fs.append(F(['C20'], 'real_node_entry_wrong', node=i, got={k: n.get(k) for k in ('type', 'is_virtual')},
                                data={k: data.get(k) for k in exp}, exp=exp, exp_type=cls.node_type))
                if n['is_generic'] != ('generic' in cls.__name__.lower()):
                    fs.append(F(['C20'], 'is_generic_flag_wrong', node=i))
                src = (data.get('code_source') or '')
                if not re.fullmatch(r'.+\.py#L\d+', src):
                    fs.append(F(['C20'], 'code_source_malformed', node=i, got=src))
                if cls.node_type is not None:
                    types_seen.add(str(getattr(cls.node_type, 'value', cls.node_type)))
        eds = d['edges']
        got_e = sorted((e['source'], e['target']) for e in eds)
        if got_e != sorted(g.edges):
            fs.append(F(['C20'], 'edge_entries_differ', n_got=len(got_e), n_exp=g.number_of_edges()))
        eids = [e['id'] for e in eds]
        if len(eids) != len(set(eids)):
            fs.append(F(['C20'], 'edge_ids_not_unique'))
        for e in eds:
            if e['source'] not in g or e['target'] not in g:
                fs.append(F(['C20'], 'edge_endpoint_missing', edge=e))
        nt = d['node_types']
        if set(nt) != types_seen or any(v.get('name') != k for k, v in nt.items()):
            fs.append(F(['C20'], 'node_type_table_differs', got=sorted(nt), exp=sorted(map(str, types_seen))))
    finally:
        materialize.unload(mod)
    return fs


def work_c20(prop, tier, seed, widx, nworkers):
    rng = random.Random(f'{prop}-{seed}-{widx}')
    nprog = 250 if tier == 'quick' else 3000
    acc = Acc(prop)
    harness.setup_engine()
    for i in range(nprog):
        base = gen.gen_program(rng, gen.profile(p_sw=0.25, p_oneof=0.25, p_rec=0.2))
        prog = decorate(base, rng, custom_types=True)
        if rng.random() < 0.05:
            # a pipeline of a single node (build_dag_single): one isolated node, no edges
            n0 = dict(prog['nodes'][prog['input']])
            prog = {'nodes': {n0['id']: n0}, 'order': [n0['id']], 'input': n0['id'], 'output': n0['id'], 'single': True}
        if rng.random() < 0.3:
            for n in prog['nodes'].values():
                for _, m in n.get('params', []):
                    if m[0] == 'sw' and rng.random() < 0.7:
                        m[1] = None
        elif rng.random() < 0.3:
            # a named switch that carries the same NAME as a processor feeding the same consumer: switch__<name> and
            # processor__<name> are different nodes, their entries and edges stay distinct
            for n in prog['nodes'].values():
                ins = [m[1] for _, m in n.get('params', []) if m[0] == 'in' and prog['nodes'][m[1]].get('nm', 'id') == 'id'
                       and not prog['nodes'][m[1]].get('generic_of')]
                sws = [m for _, m in n.get('params', []) if m[0] == 'sw' and m[1] is not None]
                if ins and sws:
                    old, new = sws[0][1], rng.choice(ins)
                    for n2 in prog['nodes'].values():
                        for _, m in n2.get('params', []):
                            if m[0] == 'sw' and m[1] == old:
                                m[1] = new
                    break
        prog['tags'] = sorted(gen.analyze(prog) | viewer_tags(prog))
        case = {'prog': prog, 'what': 'c20'}
        fs = _c20_one(prog)
        acc.programs += 1
        acc.evaluations += 1
        if gen.features(prog) & {'sw', 'oneof', 'rec'}:
            acc.nontrivial.add(int(materialize.prog_hash(prog)[:12], 16))
        key = ','.join(prog['tags']) or '-'
        acc.tagcount[key] = acc.tagcount.get(key, 0) + 1
        _collect(acc, prop, fs, case, prog)
        if len(acc.samples) < 1:
            acc.samples.append({'source_tail': materialize.render(prog)[-1200:], 'tags': prog['tags']})
    return acc.result()


def viewer_tags(prog):
    t = set()
    for nid in gen.reachable(prog):
        n = prog['nodes'][nid]
        src = prog['nodes'][n['generic_of']] if n.get('generic_of') else n
        if 'node_type' in src and src['node_type'] is not None and not isinstance(src['node_type'], list) \
                and src['node_type'] not in ENUM_TYPES:
            t.add('custom_node_type')
    return t


RULES['C20'] = ('grammar programs with every mark kind, naming variants, docstrings on class / method / none, verbose names, '
                'custom and None node types, unnamed switches and build_node generics; GraphConfigImpl(dag).generate().as_dict() '
                'is compared with a projection computed independently from DAG.graph / node_map (one entry per node, virtual '
                'flag and type by id prefix, name / verbose_name / doc of real nodes, one edge entry per dependency with existing '
                'endpoints and unique ids, type table = set of occurring types), round-tripped through json, and the DAG '
                'snapshot must be unchanged. Non-trivial: program has a switch / one-of / recurrent mark; distinct by program hash.')
