"""Offline monitors: pure functions  (observation, reference) -> findings.

A finding is a dict {prop: [...], kind, detail}.  `prop` lists the properties the observation
refutes; each check keeps the findings of its own property.
"""
from __future__ import annotations

import asyncio

from rv import rt
from rv.refsem import kkey

ENGINE_ARTEFACT_TYPES = (KeyError, IndexError, AttributeError, TypeError, NameError, asyncio.CancelledError,
                         asyncio.InvalidStateError)


def F(props, kind, **detail):
    return {'prop': list(props), 'kind': kind, 'detail': detail}


def _short(v, n=160):
    s = repr(v)
    return s if len(s) <= n else s[:n] + '...'


def raised_index(obs):
    """id(exception object) -> body_raise record"""
    idx = {}
    for r in obs.trace:
        if r['k'] == 'body_raise':
            idx[r['oid']] = r
    return idx


def check_termination(obs):
    out = []
    if obs.verdict == 'deadlock':
        out.append(F(['C02'], 'deadlock', stuck=obs.stuck[:8], steps=obs.steps))
    elif obs.verdict == 'livelock':
        out.append(F(['C02'], 'livelock', steps=obs.steps))
    return out


def error_admissible(err, causes, ridx, prog):
    """Is the reported error object one of the admissible causes?  -> (bool, description)"""
    from ml_pipeline_engine.dag.errors import (OneOfDoesNotHaveResultError,
                                               RecurrentSubgraphDoesNotHaveResultError)
    rec = ridx.get(id(err))
    if rec is not None and isinstance(err, (rt.Boom, rt.Fatal, rt.ECancel)):
        for c in causes:
            if c[0] in ('boom', 'fatal') and c[1] == rec['node'] and c[2] == rec['attempt']:
                return True, 'boom'
        return False, f'boom of {rec["node"]}#{rec["attempt"]} not a cause'
    if isinstance(err, OneOfDoesNotHaveResultError):
        for c in causes:
            if c[0] == 'oneof':
                head = f'input_one_of__{c[2]}___processor__{c[1]}'
                if err.args and err.args[0] == head:
                    return True, 'oneof'
        return False, f'OneOf error {err.args} not a cause'
    if isinstance(err, RecurrentSubgraphDoesNotHaveResultError):
        for c in causes:
            if c[0] == 'rec':
                a = err.args[0] if err.args else None
                if isinstance(a, dict) and a.get('node_id') == f'processor__{c[1]}':
                    return True, 'rec'
        return False, f'Recurrent error {_short(err.args)} not a cause'
    if any(c[0] == 'badlabel' for c in causes):
        # C09 leaves the error type for an unknown label open, but C05 forbids engine artefacts
        # (lookup errors, cancellations of helper tasks) as the reported outcome
        if isinstance(err, Exception) and not isinstance(err, (rt.Boom,) + ENGINE_ARTEFACT_TYPES):
            return True, 'badlabel'
    return False, f'{type(err).__name__}{_short(err.args)} is not an admissible cause'


def _construct_props(err):
    """A spurious / wrong engine error of a construct also refutes that construct's property."""
    name = type(err).__name__
    return {'RecurrentSubgraphDoesNotHaveResultError': ['C11'], 'OneOfDoesNotHaveResultError': ['C10'],
            'SwitchCaseDoesNotHaveBranchError': ['C09']}.get(name, [])


def _artefact(err):
    return isinstance(err, ENGINE_ARTEFACT_TYPES) and not isinstance(err, (rt.Boom, rt.ECancel, rt.Fatal))


def check_outcome(obs, ro, ref, cancelled=False):
    """C01 / C05 verdict for one run."""
    out = _check_outcome(obs, ro, ref, cancelled)
    err = ro.error if ro.outcome == 'error' else ro.raised
    if err is not None:
        for f in out:
            if f['kind'] in ('error_instead_of_value', 'wrong_error', 'engine_artefact_reported'):
                f['prop'] = sorted(set(f['prop']) | set(_construct_props(err)))
    return out


def _check_outcome(obs, ro, ref, cancelled=False):
    out = []
    exp = ref.outcome
    ridx = raised_index(obs)
    if ro.outcome is None:
        return out      # pending: termination monitor reports
    if cancelled:
        if ro.outcome == 'raised' and isinstance(ro.raised, asyncio.CancelledError):
            return out
    if ro.outcome == 'raised':
        e = ro.raised
        if isinstance(e, asyncio.CancelledError) and exp[0] in ('raised', 'error') \
                and any(c[0] == 'fatal' and c[3] == 'ECancel' for c in exp[1]):
            pass        # a node body ended with CancelledError itself: propagated like any BaseException
        elif isinstance(e, asyncio.CancelledError):
            out.append(F(['C05'], 'cancelled_escaped', exp=exp[0]))
        elif isinstance(e, Exception):
            out.append(F(['C05'], 'run_raised_exception', exc=_short(e), exp=exp[0]))
        else:
            if exp[0] in ('raised', 'error'):
                ok, why = error_admissible(e, exp[1], ridx, obs)
                if not ok:
                    out.append(F(['C05'], 'wrong_error', why=why, raised=True))
            else:
                out.append(F(['C01', 'C05'], 'error_instead_of_value', err=_short(e)))
        return out
    if exp[0] == 'value':
        if ro.outcome == 'value':
            if ro.value != exp[1]:
                out.append(F(['C01'], 'wrong_value', got=_short(ro.value, 400), exp=_short(exp[1], 400)))
        else:
            if _artefact(ro.error):
                # an engine-internal lookup / type / cancellation error as the verdict of a run in which no node fails
                out.append(F(['C01', 'C05'], 'engine_artefact_reported', err=_short(ro.error), exp='value'))
            else:
                out.append(F(['C01', 'C05'], 'error_instead_of_value', err=_short(ro.error), sub='spurious'))
    else:
        if ro.outcome == 'value':
            out.append(F(['C01', 'C05'], 'value_instead_of_error', got=_short(ro.value, 300),
                         causes=_short(sorted(exp[1]))))
        else:
            ok, why = error_admissible(ro.error, exp[1], ridx, obs)
            if not ok:
                if _artefact(ro.error):
                    out.append(F(['C05'], 'engine_artefact_reported', err=_short(ro.error), exp='error',
                                 causes=_short(sorted(exp[1]))))
                else:
                    out.append(F(['C05'], 'wrong_error', why=why, sub='other', causes=_short(sorted(exp[1]))))
            elif exp[0] == 'raised':
                pass
    return out


BAD_ARG_TYPES = None


def _bad_arg(v):
    from ml_pipeline_engine.types import Recurrent
    if isinstance(v, BaseException):
        return 'exception_instance'
    if isinstance(v, Recurrent):
        return 'recurrent_marker'
    return None


def check_invocations(obs, ro, ref, prog, lazy_guard=None):
    """Compare every body invocation of one run with the reference's expected invocations."""
    out = []
    run = ro.tag
    counts = {}
    first = {}
    for r in obs.trace:
        if r['k'] == 'body_start' and r['run'] == run:
            key = (r['node'], kkey(rt.cmp_kwargs(prog['nodes'][r['node']], r['kwargs'])))
            counts[key] = counts.get(key, 0) + 1
            first.setdefault(key, r)
    exp_nodes = {}
    for (node, kk), e in ref.inv.items():
        exp_nodes.setdefault(node, []).append(e)
    success = ref.outcome[0] == 'value' and ro.outcome == 'value'
    n_cmp = 0
    for key, c in counts.items():
        node, kk = key
        rec = first[key]
        n_cmp += len(rec['kwargs']) or 1
        bad = None
        for pn, v in rec['kwargs'].items():
            b = _bad_arg(v)
            if b:
                bad = (pn, b)
        if rt.has_foreign_run(rec['kwargs'], run):
            out.append(F(['C08', 'C03'], 'foreign_run_value', node=node, kwargs=_short(rec['kwargs'], 300)))
            continue
        e = ref.inv.get(key)
        if e is None:
            if node not in exp_nodes:
                guard = (lazy_guard or {}).get(node, set())
                props = ['C03']
                if 'sw' in guard:
                    props.append('C09')
                if 'oneof' in guard:
                    props.append('C10')
                if bad:
                    out.append(F(['C03'] + props[1:], 'bad_arg_' + bad[1], node=node, param=bad[0]))
                else:
                    out.append(F(props, 'never_node_ran', node=node, guard=sorted(guard),
                                 kwargs=_short(rec['kwargs'], 300)))
            else:
                decl = {p for p, _ in prog['nodes'][node].get('params', [])}
                got = set(rt.cmp_kwargs(prog['nodes'][node], rec['kwargs']))     # names as the oracle compares them
                if bad:
                    kind = 'bad_arg_' + bad[1]
                elif any(v is None and not _none_is_a_value(prog, node, pn) for pn, v in rec['kwargs'].items()) and not any(
                        any(v is None for v in x.kwargs.values()) for x in exp_nodes[node]):
                    kind = 'none_placeholder_arg'
                elif got != {k for x in exp_nodes[node] for k in x.kwargs} and \
                        all(got != set(x.kwargs) for x in exp_nodes[node]):
                    kind = 'wrong_arg_names'
                else:
                    kind = 'unexpected_args'
                props = ['C03']
                if prog['nodes'][node].get('start_of') or _in_any_sub(ref, node):
                    props.append('C11')
                if kind == 'none_placeholder_arg':
                    # whose value is missing: the result of a recurrent subgraph (C11), of a switch (C09), of a one-of (C10)
                    for pn, mk in prog['nodes'][node].get('params', []):
                        if rec['kwargs'].get(pn, 0) is None:
                            extra = {'rec': 'C11', 'sw': 'C09', 'oneof': 'C10'}.get(mk[0])
                            if extra and extra not in props:
                                props.append(extra)
                if kind == 'wrong_arg_names':
                    swp = {p for p, mk in prog['nodes'][node].get('params', []) if mk[0] == 'sw'}
                    expn = set(exp_nodes[node][0].kwargs)
                    if swp & (expn ^ got):
                        props.append('C09')      # a SwitchCase parameter was not supplied / re-targeted
                wc = _wrong_case(prog, node, rec['kwargs'], exp_nodes[node])
                if wc:
                    out.append(F(['C09', 'C03'], 'wrong_case_routed', node=node, param=wc[0], got_case=wc[1],
                                 expected_case=wc[2]))
                wo = _wrong_candidate(prog, node, rec['kwargs'], exp_nodes[node])
                if wo:
                    out.append(F(['C10', 'C03'], 'wrong_candidate_delivered', node=node, param=wo[0], got_candidate=wo[1],
                                 expected_candidate=wo[2]))
                out.append(F(props, kind, node=node, got=_short(rec['kwargs'], 400),
                             exp=[_short(x.kwargs, 400) for x in exp_nodes[node][:3]],
                             decl=sorted(decl)))
            continue
        if c > e.n:
            props = ['C04']
            if any(v > 0 for v in ref.rec_iters.values()) and not _in_any_sub(ref, node):
                props.append('C11')     # a node outside every recurrent subgraph was re-executed
            out.append(F(props, 'over_execution', node=node, got=c, exp=e.n,
                         kwargs=_short(rec['kwargs'], 200)))
    if success:
        for key, e in ref.inv.items():
            if e.must and counts.get(key, 0) < e.n:
                out.append(F(['C01', 'C12'], 'missing_execution', node=key[0], got=counts.get(key, 0),
                             exp=e.n))
    elif ref.outcome[0] == 'value' and ro.outcome in ('error', 'raised') and not obs.verdict \
            and not isinstance(ro.raised, asyncio.CancelledError):
        # the run failed although nothing in the program makes it fail: an execution whose last attempt raised and
        # which was not re-invoked although its retry policy demands further attempts was abandoned (C12)
        cur = {}
        last_raise = {}
        for r in obs.trace:
            if r['run'] != run:
                continue
            if r['k'] == 'body_start':
                cur[r['node']] = (r['node'], kkey(rt.cmp_kwargs(prog['nodes'][r['node']], r['kwargs'])))
            elif r['k'] == 'body_raise' and r['node'] in cur:
                last_raise[cur[r['node']]] = True
            elif r['k'] in ('body_ret', 'body_next') and r['node'] in cur:
                last_raise[cur[r['node']]] = False
        for key, e in ref.inv.items():
            c = counts.get(key, 0)
            if e.must and 0 < c < e.n and last_raise.get(key):
                out.append(F(['C12'], 'retry_abandoned', node=key[0], got=c, exp=e.n))
    return out, n_cmp


def _term_node(v):
    if isinstance(v, tuple) and len(v) == 3 and v[0] in ('V', 'D'):
        return v[1]
    return None


def _wrong_case(prog, node, kwargs, expected):
    """The invocation agrees with an expected one on every argument except a SwitchCase parameter, whose
    value was produced by another case node than the selected one."""
    sw = {p: {c for _, c in m[3]} for p, m in prog['nodes'][node].get('params', []) if m[0] == 'sw'}
    if not sw:
        return None
    for e in expected:
        if set(e.kwargs) != set(kwargs):
            continue
        diff = [p for p in kwargs if kwargs[p] != e.kwargs[p]]
        if len(diff) == 1 and diff[0] in sw:
            p = diff[0]
            got, exp = _term_node(kwargs[p]), _term_node(e.kwargs[p])
            if got in sw[p] and exp in sw[p] and got != exp:
                return (p, got, exp)
    return None


def _none_is_a_value(prog, node, pname):
    """None can be a REAL value of this parameter: one of the nodes that may supply it (the dependency, a case, a
    candidate, the destination) returns the literal None or falls back to a None default.  Then a None argument is a
    (possibly wrongly routed) value, not a placeholder for a missing result."""
    for pn, mk in prog['nodes'][node].get('params', []):
        if pn != pname:
            continue
        src = {'in': lambda m: [m[1]], 'sw': lambda m: [c for _, c in m[3]], 'oneof': lambda m: list(m[1]),
               'rec': lambda m: [m[2]]}.get(mk[0], lambda m: [])(mk)
        for s in src:
            n = prog['nodes'].get(s) or {}
            plan = n.get('plan') or {}
            if plan.get('ret') == ['lit', None] or plan.get('default_none'):
                return True
    return False


def _wrong_candidate(prog, node, kwargs, expected):
    """The invocation agrees with an expected one on every argument except an InputOneOf parameter, whose value was
    produced by another candidate than the first one (in declared order) that does not fail."""
    oo = {p: set(m[1]) for p, m in prog['nodes'][node].get('params', []) if m[0] == 'oneof'}
    if not oo:
        return None
    for e in expected:
        if set(e.kwargs) != set(kwargs):
            continue
        diff = [p for p in kwargs if kwargs[p] != e.kwargs[p]]
        if len(diff) == 1 and diff[0] in oo:
            p = diff[0]
            got, exp = _term_node(kwargs[p]), _term_node(e.kwargs[p])
            if got in oo[p] and exp in oo[p] and got != exp:
                return (p, got, exp)
    return None


def _in_any_sub(ref, node):
    for (s, d), sub in ref.sub_cache.items():
        if node in sub:
            return True
    return False


def lazy_guards(prog):
    """node -> set of constructs ('sw','oneof') that guard it on *every* path from the output.

    A node is guarded if it is not reachable from the output through eager edges only."""
    from rv import gen
    eager = set()
    st = [prog['output']]
    while st:
        n = st.pop()
        if n in eager:
            continue
        eager.add(n)
        for _, m in prog['nodes'][n].get('params', []):
            if m[0] == 'in':
                st.append(m[1])
            elif m[0] == 'sw':
                st.append(m[2])
            elif m[0] == 'rec':
                st.append(m[2])
    guards = {}
    for n in prog['nodes']:
        if n in eager or n == prog['input']:
            continue
        g = set()
        # which lazy constructs lead to it
        for c, _, k in _all_cons_closure(prog, n):
            if k == 'case':
                g.add('sw')
            if k == 'cand':
                g.add('oneof')
        guards[n] = g
    return guards


def _all_cons_closure(prog, n):
    from rv import gen
    cons = gen.consumers(prog)
    seen = set()
    out = []
    st = [n]
    while st:
        x = st.pop()
        for c in cons.get(x, []):
            out.append(c)
            if c[0] not in seen:
                seen.add(c[0])
                st.append(c[0])
    return out


def check_instances(trace):
    """C08 / C17 mechanism: every invocation gets a new node object (a node may keep per-call state on self;
    a reused object makes in-process modes differ from the process pool, which works on a pickled copy)."""
    out = []
    for r in trace:
        if r['k'] == 'body_start' and r.get('inst_uses'):
            out.append(F(['C08', 'C17'], 'node_instance_reused', node=r['node'], uses=r['inst_uses']))
            break
    for r in trace:
        if r['k'] == 'body_start' and r.get('factory') is False:
            # the class declares default_factory, but this node object was made some other way (execution modes differ)
            out.append(F(['C17'], 'node_object_not_from_default_factory', node=r['node']))
            break
    return out


def check_dispatch(obs, prog):
    """C17/C06: each node is dispatched as its declaration says: coroutine / inline on the loop, sync nodes
    without the non_async tag through the thread pool, process-tagged nodes through the process pool."""
    out = []
    submits = {}
    for r in obs.trace:
        if r['k'] == 'submit':
            submits.setdefault(r['node'], []).append(r['pool'])
    started = {r['node'] for r in obs.trace if r['k'] == 'body_start'}
    n = 0
    for nid in started | set(submits):
        mode = prog['nodes'][nid].get('mode')
        exp = {'async': None, 'async_tagged': None, 'inline': None, 'process': 'process'}.get(mode, 'thread')
        got = set(submits.get(nid, []))
        n += 1
        if exp is None and got:
            out.append(F(['C17', 'C06'], 'wrong_dispatch', node=nid, mode=mode, submitted_to=sorted(got)))
        elif exp is not None and got != {exp}:
            out.append(F(['C17', 'C06'], 'wrong_dispatch', node=nid, mode=mode, submitted_to=sorted(got), expected=exp))
    return out, n


def check_defaults(obs, ro, ref):
    """get_default called with the same kwargs as the failing invocation (C12) / last dest kwargs (C11)."""
    out = []
    run = ro.tag
    nodes = obs.session.nodes
    got = [(r['node'], kkey(rt.cmp_kwargs(nodes[r['node']], r['kwargs']))) for r in obs.trace
           if r['k'] == 'default_call' and r['run'] == run]
    exp = [(n, kkey(kw)) for n, kw in ref.defaults]
    expset = set(exp)
    for g in got:
        if g not in expset:
            out.append(F(['C12', 'C11'], 'unexpected_default_call', node=g[0], kwargs=g[1][:300]))
    if ref.outcome[0] == 'value' and ro.outcome == 'value':
        for e in exp:
            if e[0] in ref.must_nodes and e not in got:
                out.append(F(['C12', 'C11'], 'missing_default_call', node=e[0]))
    return out


def check_retry_timing(obs, ro, prog):
    """C12: between body_raise(k) and the next body_start of the SAME execution (no on_node_start in
    between) at least `delay` virtual seconds elapse."""
    out = []
    run = ro.tag
    pending = {}
    last_kwargs = {}
    n_checked = 0
    for r in obs.trace:
        if r['run'] != run:
            continue
        k = r['k']
        if k == 'body_start':
            cur = kkey(r['kwargs'])
        if k == 'body_raise':
            pending[r['node']] = dict(r, kwargs_key=last_kwargs.get(r['node']))
        elif k == 'cb_node_start':
            pending.pop(r['node'], None)
        elif k == 'body_start':
            pr = pending.pop(r['node'], None)
            if pr is not None and pr.get('kwargs_key') is not None and pr['kwargs_key'] != kkey(r['kwargs']):
                out.append(F(['C12'], 'retry_with_different_arguments', node=r['node'],
                             first=pr['kwargs_key'][:200], retry=kkey(r['kwargs'])[:200]))
            if pr is not None:
                node = prog['nodes'][r['node']]
                delay = (node.get('retry') or {}).get('delay') or 0
                n_checked += 1
                if r['vt'] - pr['vt'] < delay - 1e-9:
                    out.append(F(['C12'], 'retry_delay_too_short', node=r['node'], waited=r['vt'] - pr['vt'],
                                 delay=delay))
            last_kwargs[r['node']] = cur
    return out, n_checked


def check_post_end(obs, ro):
    """C13: nothing is started after chart.run returned / raised."""
    out = []
    if ro.end_index is None:
        return out
    run = ro.tag
    for r in obs.trace[ro.end_index + 1:]:
        if r['run'] != run:
            continue
        k = r['k']
        if k == 'pool_start' and r['step'] - ro.end_step <= 1:
            # a job that waited in the queue of a bounded pool is picked up by a worker in the one loop iteration
            # between run() ending (its tasks have only been asked to cancel) and the cancellation reaching the
            # pool's future: known finding KF-POOLWINDOW; a later pick-up is an ordinary 'started_after_end'
            out.append(F(['C13'], 'queued_pool_job_started_in_cancel_window', node=r['node'], step=r['step'],
                         end_step=ro.end_step))
        elif k in ('cb_resume', 'cb2_resume'):
            # an event callback that was suspended when the run ended goes on executing afterwards
            out.append(F(['C13'], 'callback_running_after_end', node=r['node'], cb=r.get('cb'), step=r['step'],
                         end_step=ro.end_step))
        elif k in ('submit', 'default_call', 'pool_start') or k.startswith('cb_node') or k.startswith('cb2_node') or k == 'save' or \
                k == 'cb_pipeline_start' or k == 'cb_pipeline_complete':
            out.append(F(['C13'], 'started_after_end', what=k, node=r['node'], step=r['step'],
                         end_step=ro.end_step))
        elif k == 'body_start':
            mode = obs.session.nodes[r['node']].get('mode')
            if mode in ('async', 'async_tagged', 'inline'):
                out.append(F(['C13'], 'started_after_end', what=k, node=r['node'], step=r['step'],
                             end_step=ro.end_step))
    return out


def check_second_manager(obs, ro, cancelled=False):
    """C14 for a second event manager behind the (possibly suspending) first one: nothing after its
    on_pipeline_complete, start/complete pairing per node, and - for a run that ended normally - the same multiset
    of node events the first manager saw."""
    out = []
    run = ro.tag
    ev2 = [r for r in obs.trace if r['run'] == run and r['k'].startswith('cb2_') and r['k'] != 'cb2_resume']
    if not ev2:
        return out
    finished = ro.outcome in ('value', 'error')
    comps = [i for i, r in enumerate(ev2) if r['k'] == 'cb2_pipeline_complete']
    if finished and len(comps) != 1:
        out.append(F(['C14'], 'pipeline_complete_count', n=len(comps), manager=2))
    if comps and not any(r['k'] == 'cb2_pipeline_start' for r in ev2[:comps[0]]):
        out.append(F(['C14'], 'pipeline_complete_without_start', manager=2))
    if ev2 and ev2[0]['k'] != 'cb2_pipeline_start':
        out.append(F(['C14'], 'pipeline_start_not_first_once', first=ev2[0]['k'], manager=2))
    if comps and comps[0] != len(ev2) - 1:
        later = [r['k'][4:] + ':' + str(r['node']) for r in ev2[comps[0] + 1:]][:5]
        out.append(F(['C14', 'C13'], 'event_after_pipeline_complete', later=later, manager=2))
    state = {}
    for r in ev2:
        n = r['node']
        if r['k'] == 'cb2_node_start':
            if state.get(n) == 'started':
                out.append(F(['C14'], 'node_start_twice_without_complete', node=n, manager=2))
            state[n] = 'started'
        elif r['k'] == 'cb2_node_complete':
            if state.get(n) not in ('started', 'retrying'):
                out.append(F(['C14'], 'node_complete_without_start', node=n, manager=2))
            state[n] = 'retrying' if r.get('err') is not None else 'idle'
    if finished and not cancelled:
        def bag(prefix):
            c = {}
            for r in obs.trace:
                if r['run'] == run and r['k'] in (prefix + 'node_start', prefix + 'node_complete'):
                    key = (r['k'][len(prefix):], r['node'], r.get('err') is not None)
                    c[key] = c.get(key, 0) + 1
            return c
        # an event is delivered to the managers in list order, so the second one can only have seen what the first
        # one saw (the first one may still be inside a callback when the run ends and its task is cancelled)
        b1, b2 = bag('cb_'), bag('cb2_')
        diff = sorted(k for k in b2 if b2[k] > b1.get(k, 0))[:5]
        if diff:
            out.append(F(['C14'], 'second_manager_saw_more_events', diff=[list(map(str, k)) for k in diff]))
    return out


def check_events(obs, ro, ref, prog, cancelled=False):
    """C14: lifecycle-event grammar for one run."""
    out = []
    run = ro.tag
    evs = [r for r in obs.trace if r['run'] == run and (r['k'].startswith('cb_') or r['k'] in (
        'body_start', 'body_ret', 'body_raise', 'body_next', 'default_call', 'run_end', 'run_begin'))]
    cbs = [r for r in evs if r['k'] in ('cb_pipeline_start', 'cb_pipeline_complete', 'cb_node_start',
                                        'cb_node_complete')]
    if not cbs:
        return out
    finished = ro.outcome in ('value', 'error')
    starts = [r for r in cbs if r['k'] == 'cb_pipeline_start']
    comps = [r for r in cbs if r['k'] == 'cb_pipeline_complete']
    if len(starts) != 1 or cbs[0]['k'] != 'cb_pipeline_start':
        out.append(F(['C14'], 'pipeline_start_not_first_once', n=len(starts)))
    if finished:
        if len(comps) != 1:
            out.append(F(['C14'], 'pipeline_complete_count', n=len(comps)))
        else:
            # last callback *started* for this run must be pipeline_complete
            if cbs[-1]['k'] != 'cb_pipeline_complete':
                later = [r['k'] + ':' + str(r['node']) for r in cbs[cbs.index(comps[0]) + 1:]][:5]
                out.append(F(['C14', 'C13'], 'event_after_pipeline_complete', later=later))
            if comps[0]['rid'] != id(ro.result):
                out.append(F(['C14'], 'pipeline_complete_other_result'))
    elif ro.outcome == 'raised' and comps and not cancelled:
        pass
    # per node automaton
    state = {}      # node -> 'idle' | 'started'
    last_complete = {}
    seq = {}
    for r in evs:
        n = r['node']
        k = r['k']
        if k == 'cb_node_start':
            if state.get(n) == 'started':
                out.append(F(['C14'], 'node_start_twice_without_complete', node=n))
            state[n] = 'started'
            seq.setdefault(n, []).append('S')
        elif k == 'cb_node_complete':
            if state.get(n) != 'started' and state.get(n) != 'retrying':
                out.append(F(['C14'], 'node_complete_without_start', node=n))
            state[n] = 'retrying' if r['err'] is not None else 'idle'
            last_complete[n] = r
            seq.setdefault(n, []).append('C' if r['err'] is None else 'E')
        elif k == 'body_start':
            if state.get(n) not in ('started', 'retrying'):
                out.append(F(['C14'], 'body_without_node_start', node=n, state=state.get(n)))
            seq.setdefault(n, []).append('b')
    # an async / inline body runs inside the engine task: its outcome is followed by on_node_complete in
    # the very same task step, so the next event of that node must be the completion callback
    last = {}
    for r in evs:
        n = r['node']
        if n is None:
            continue
        k = r['k']
        prev = last.get(n)
        if prev is not None and k not in ('cb_node_complete', 'cb_resume', 'cb_fault'):
            if not (prev['k'] == 'body_raise' and k == 'default_call'):
                out.append(F(['C14'], 'missing_node_complete', node=n, after=prev['k'], then=k))
            last.pop(n, None)
        if k in ('body_ret', 'body_next', 'default_call') or (k == 'body_raise' and r.get('exc') != 'Fatal'):
            if prog['nodes'].get(n, {}).get('mode') in ('async', 'async_tagged', 'inline'):
                last[n] = r
            continue
        if k == 'cb_node_complete':
            last.pop(n, None)
    if finished:
        for n, prev in last.items():
            out.append(F(['C14'], 'missing_node_complete', node=n, after=prev['k'], then='run end'))
    # attempts: number of node_complete per execution == number of body invocations (or 1 for default)
    body_n = {}
    comp_n = {}
    for r in evs:
        if r['k'] == 'body_start':
            body_n[r['node']] = body_n.get(r['node'], 0) + 1
        elif r['k'] == 'cb_node_complete':
            comp_n[r['node']] = comp_n.get(r['node'], 0) + 1
    if finished and ro.outcome == 'value' and ref is not None and ref.outcome[0] == 'value':
        for n in ref.must_nodes:
            b = body_n.get(n, 0)
            c = comp_n.get(n, 0)
            if b and c != b:
                # forced default execution of an exhausted recurrent dest emits one extra pair
                extra = sum(1 for d, _ in ref.defaults if d == n and prog['nodes'][n].get('kind') == 'dest')
                if c != b + extra:
                    out.append(F(['C14'], 'complete_count_ne_attempts', node=n, bodies=b, completes=c,
                                 seq=''.join(seq.get(n, []))))
    # last complete error flag vs node outcome: for every node_complete, the body outcome events since
    # the previous complete decide the flag (value / default => error None; raise => that exception)
    pend = {}
    for r in evs:
        n = r['node']
        k = r['k']
        if k in ('body_ret', 'body_next', 'default_call'):
            pend[n] = ('ok', None)
        elif k == 'body_raise':
            pend[n] = ('raise', r['oid'])
        elif k == 'cb_node_complete':
            got = pend.pop(n, None)
            if got is None:
                continue
            if got[0] == 'ok' and r['err'] is not None and r['errtype'] not in ('CollabFault',):
                out.append(F(['C14'], 'complete_reports_error_for_value', node=n, err=r['errtype']))
            elif got[0] == 'raise' and r['err'] is None:
                out.append(F(['C14'], 'complete_reports_success_for_failure', node=n))
            elif got[0] == 'raise' and r['err'] != got[1]:
                out.append(F(['C14'], 'complete_reports_other_exception', node=n, err=r['errtype']))
    # delivery before successful complete
    seen_ok_complete = set()
    produced_value = {}
    for r in evs:
        if r['k'] in ('body_ret',):
            produced_value[r['node']] = True
        if r['k'] == 'cb_node_complete' and r['err'] is None:
            seen_ok_complete.add(r['node'])
        if r['k'] == 'cb_node_start':
            seen_ok_complete.discard(r['node'])
        if r['k'] == 'body_start':
            for pn, v in r['kwargs'].items():
                src = v[1] if isinstance(v, tuple) and len(v) == 3 and v[0] in ('V',) else None
                if src is not None and src not in seen_ok_complete and src in prog['nodes']:
                    out.append(F(['C14'], 'delivered_before_complete', node=r['node'], src=src))
    return out


def check_saves(obs, ro, ref, prog):
    """C19: the store receives each executed node's final value exactly once."""
    from ml_pipeline_engine.types import Recurrent
    out = []
    run = ro.tag
    saves = [r for r in obs.trace if r['k'] == 'save' and r['run'] == run]
    by = {}
    for r in saves:
        by.setdefault(r['engine_id'], []).append(r)
        if isinstance(r['value'], Recurrent):
            out.append(F(['C19'], 'recurrent_marker_saved', node=r['node']))
        if isinstance(r['value'], BaseException):
            out.append(F(['C19'], 'exception_saved', node=r['node'], exc=type(r['value']).__name__))
    for eid, rs in by.items():
        if len(rs) > 1:
            out.append(F(['C19'], 'saved_more_than_once', node=rs[0]['node'], n=len(rs)))
    if ref is not None and ref.outcome[0] == 'value':
        if ro.outcome == 'error' and isinstance(ro.error, rt.AlreadySaved):
            out.append(F(['C19'], 'write_once_store_failed_run', err=_short(ro.error)))
        if ro.outcome == 'value':
            executed = {r['node'] for r in obs.trace if r['k'] == 'body_start' and r['run'] == run}
            saved_nodes = {r['node'] for r in obs.trace if r['k'] == 'save_done' and r['run'] == run
                           and r['engine_id'].startswith('processor__')}
            for n in executed:
                if n in ref.must_nodes and n not in saved_nodes:
                    # run() returns only after the output node's task has finished, i.e. after its save: the output
                    # node's artifact can never be missing, whatever the store's latency
                    kind = 'output_node_not_saved' if n == prog['output'] else 'executed_node_not_saved'
                    out.append(F(['C19'], kind, node=n))
            # value equality: saved value == final value per reference
            for r in saves:
                n = r['node']
                if n in ref.must_nodes and n in ref.memo and ref.memo[n][0] == 'ok':
                    if not isinstance(r['value'], (Recurrent, BaseException)) and r['value'] != ref.memo[n][1]:
                        if len(by[r['engine_id']]) == 1:
                            out.append(F(['C19'], 'saved_value_not_final', node=n))
    return out
