"""Execute one case (program x runs x schedule) on the virtual loop and return observations."""
from __future__ import annotations

import asyncio
import logging
import os
import random
import sys
import uuid
import warnings

REPO = os.environ.get('VERIF_REPO', '/repo')
if REPO not in sys.path:
    sys.path.insert(0, REPO)
os.environ.setdefault('ML_PIPELINE_ENGINE_VERIF', '1')

from rv import materialize, rt, vloop  # noqa: E402

_state = {}
COUNTERS = {}


class _DummyManager:
    def shutdown(self):
        pass


def setup_engine():
    """Import the engine from the working tree and register virtual executors (once)."""
    if _state:
        return _state
    logging.disable(logging.CRITICAL)
    warnings.simplefilter('ignore')
    from ml_pipeline_engine.chart import PipelineChart
    from ml_pipeline_engine.dag_builders.annotation import build_dag
    from ml_pipeline_engine.parallelism import process_pool_registry, threads_pool_registry
    tex = vloop.VExecutor('thread')
    pex = vloop.VExecutor('process')
    threads_pool_registry.register_pool_executor(tex)
    process_pool_registry.register_pool_executor(pex)
    process_pool_registry.register_manager(_DummyManager())
    # shadow counter (DESIGN 3.5): wait_for_event is only reached on the duplicate-request path of
    # _execute_node ("Stop new execution"); looked up through the class at call time
    from ml_pipeline_engine.dag import manager as _mgr
    _orig_wfe = _mgr.DAGConcurrentManagerLock.wait_for_event

    async def _counting_wfe(self, event_name):
        COUNTERS['dup_request'] = COUNTERS.get('dup_request', 0) + 1
        return await _orig_wfe(self, event_name)
    _mgr.DAGConcurrentManagerLock.wait_for_event = _counting_wfe
    _state.update(PipelineChart=PipelineChart, build_dag=build_dag, tex=tex, pex=pex,
                  store_cls=rt.make_store_class())
    # deterministic uuid4 (unnamed switch ids, default pipeline ids)
    _uu = random.Random(12345)
    uuid.uuid4 = lambda: uuid.UUID(int=_uu.getrandbits(128), version=4)
    return _state


def reseed_uuid(seed):
    _uu = random.Random(seed)
    uuid.uuid4 = lambda: uuid.UUID(int=_uu.getrandbits(128), version=4)


class Built:
    """A materialised + built program (chart)."""

    def __init__(self, prog, events=True, store=False, events2=False):
        st = setup_engine()
        self.prog = prog
        self.mod = materialize.load(prog)
        self.build_error = None
        self.dag = None
        self.chart = None
        try:
            self.dag = st['build_dag'](input_node=getattr(self.mod, prog['input']),
                                       output_node=getattr(self.mod, prog['output']))
        except Exception as e:  # noqa: BLE001
            self.build_error = e
            return
        self.events2 = events2
        self.chart = self.make_chart(events, store)

    def make_chart(self, events=True, store=False):
        st = setup_engine()
        return st['PipelineChart'](
            model_name='rv',
            entrypoint=self.dag,
            event_managers=([rt.RecordingEvents] + ([rt.SecondEvents] if getattr(self, 'events2', False) else [])) if events else [],
            artifact_store=st['store_cls'] if store else None,
        )

    def fresh(self, events=True, store=False):
        """Rebuild DAG + chart from the same materialised classes (no state shared with earlier runs)."""
        st = setup_engine()
        self.dag = st['build_dag'](input_node=getattr(self.mod, self.prog['input']),
                                   output_node=getattr(self.mod, self.prog['output']))
        self.chart = self.make_chart(events, store)
        return self

    def chart_for(self, output, events=True, store=False):
        """A second chart built from the same node classes with another output node."""
        st = setup_engine()
        dag = st['build_dag'](input_node=getattr(self.mod, self.prog['input']), output_node=getattr(self.mod, output))
        return st['PipelineChart'](model_name='rv2', entrypoint=dag,
                                   event_managers=[rt.RecordingEvents] if events else [],
                                   artifact_store=st['store_cls'] if store else None)

    def close(self):
        materialize.unload(self.mod)


class RunObs:
    __slots__ = ('tag', 'val', 'outcome', 'value', 'error', 'raised', 'result', 'end_index',
                 'end_step', 'kwargs_before', 'kwargs_after', 'kwargs_obj')

    def __init__(self, tag, val):
        self.tag = tag
        self.val = val
        self.outcome = None     # 'value' | 'error' | 'raised' | None (pending)
        self.value = None
        self.error = None
        self.raised = None
        self.result = None
        self.end_index = None   # len(trace) when chart.run returned / raised
        self.end_step = None
        self.kwargs_before = None
        self.kwargs_after = None
        self.kwargs_obj = None


class CaseObs:
    def __init__(self):
        self.runs = []
        self.trace = []
        self.verdict = None         # None | 'deadlock' | 'livelock'
        self.sched = []
        self.steps = 0
        self.choice_points = 0
        self.quiescent_points = 0
        self.unhandled = []
        self.stuck = []
        self.pending_tasks_after_drain = 0
        self.max_pending = 0
        self.cancelled_steps = {}
        self.warnings = []


def execute(built, runs, ctl, gate_events=0.0, gate_saves=0.0, write_once=True,
            collab_faults=None, extra_kwargs=None, start_gated=False, on_quiescent=None,
            collect_stuck=True, sequential=False, charts=None, pool_cap=None, shared_meta=False, gate_events2=0.0):
    """runs: list of (tag, val).  Overlapping by default; sequential=True runs them in order."""
    st = setup_engine()
    obs = CaseObs()
    sess = rt.Session(built.prog, gate_events=gate_events, gate_saves=gate_saves,
                      rng=random.Random(ctl.rng.random()), collab_faults=collab_faults)
    sess.write_once = write_once
    sess.gate_events2 = gate_events2
    rt.set_session(sess)
    ros = [RunObs(t, v) for t, v in runs]
    obs.runs = ros
    extra_kwargs = extra_kwargs or built.prog.get('extra_inputs')
    chart0 = built.chart
    meta_obj = {'caller': 'rv', 'n': 1}
    obs.meta_before = dict(meta_obj)
    obs.meta_obj = meta_obj if shared_meta else None
    chart_of = {}
    for i, ro in enumerate(ros):
        chart_of[ro.tag] = (charts[i] if charts and charts[i] is not None else chart0)

    async def one(ro):
        chart = chart_of[ro.tag]
        rt.RUN.set(ro.tag)
        kw = {'x': ('IN', ro.tag, ro.val)}
        if extra_kwargs:
            kw.update(extra_kwargs)
        ro.kwargs_obj = kw
        ro.kwargs_before = dict(kw)
        if start_gated:
            await rt.gate(('start', ro.tag))
        sess.ev('run_begin', ro.tag, None)
        try:
            if shared_meta:
                # the caller passes ONE meta dict to every run: it is the caller's object, the runs may read it
                res = await chart.run(pipeline_id=ro.tag, input_kwargs=kw, meta=meta_obj)
            else:
                res = await chart.run(pipeline_id=ro.tag, input_kwargs=kw)
        except BaseException as e:  # noqa: BLE001
            if sess.frozen:
                raise
            ro.outcome = 'raised'
            ro.raised = e
            sess.objs.append(e)
            ro.end_index = len(sess.trace)
            ro.end_step = sess.loop.step
            ro.kwargs_after = dict(kw)
            sess.ev('run_end', ro.tag, None, outcome='raised', exc=type(e).__name__)
            if isinstance(e, asyncio.CancelledError):
                raise
            return
        ro.result = res
        ro.kwargs_after = dict(kw)
        sess.objs.append(res)
        if res.error is not None:
            ro.outcome = 'error'
            ro.error = res.error
        else:
            ro.outcome = 'value'
            ro.value = res.value
        ro.end_index = len(sess.trace)
        ro.end_step = sess.loop.step
        sess.ev('run_end', ro.tag, None, outcome=ro.outcome)

    if sequential:
        async def seq():
            for ro in ros:
                await one(ro)
        factories = [seq]
    else:
        factories = [(lambda ro=ro: one(ro)) for ro in ros]

    ctl.on_quiescent = on_quiescent

    def _meta(vname, fn):
        # identify the node of an executor job: functools.partial(bound process, **kwargs)
        try:
            inst = fn.func.__self__
            nid = type(inst).__dict__.get('name') or type(inst).name
            run = sess.run_of(fn.keywords)
            sess.ev('submit', run, nid, pool=vname)
            return (run, nid)
        except Exception:  # noqa: BLE001
            return ('?',)

    def _started(vname, meta):
        # a job that waited in the queue of a bounded pool is picked up by a worker now
        if meta and len(meta) == 2:
            sess.ev('pool_start', meta[0], meta[1], pool=vname)

    for ex in (st['tex'], st['pex']):
        ex.on_submit = _meta
        ex.on_start = _started
        ex.reset(cap=pool_cap)

    loop = vloop.VLoop(ctl)
    sess.loop = loop
    for ex in (st['tex'], st['pex']):
        ex.loop = loop
    try:
        asyncio.set_event_loop(loop)
        tasks = [loop.create_task(f(), name=f'main-{i}') for i, f in enumerate(factories)]
        ctl.mains = tasks
        with warnings.catch_warnings(record=True) as wlist:
            warnings.simplefilter('always')
            loop.run_forever()
        obs.warnings = [str(w.message)[:200] for w in wlist
                        if 'предназначена' not in str(w.message)]
        obs.verdict = ctl.verdict
        obs.steps = loop.step
        obs.sched = ctl.log
        obs.choice_points = ctl.choice_points
        obs.quiescent_points = ctl.quiescent_points
        obs.max_pending = ctl.max_pending
        obs.cancelled_steps = dict(ctl.cancelled_steps)
        obs.unhandled = list(loop.unhandled)
        pend = [t for t in asyncio.all_tasks(loop) if not t.done()]
        obs.pending_tasks_after_drain = len(pend)
        if collect_stuck and (ctl.verdict or pend):
            for t in pend[:12]:
                fr = t.get_stack(limit=3)
                obs.stuck.append((t.get_name(), [f'{f.f_code.co_name}:{f.f_lineno}' for f in fr]))
        obs.trace = sess.trace
        sess.frozen = True
        vloop._cleanup(loop, ctl)
    finally:
        asyncio.set_event_loop(None)
        for ex in (st['tex'], st['pex']):
            ex.loop = None
        loop.close()
        rt.set_session(None)
    obs.session = sess
    return obs
