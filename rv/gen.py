"""Grammar-based generator of IR programs (DESIGN.md 3.1) and the structural analyser that
computes hostile-family tags from the IR (tags are facts about the program, not about a run)."""
from __future__ import annotations

import random

MODES = ('async', 'thread', 'inline', 'process')
ALL_MODES = ('async', 'async', 'thread', 'thread', 'inline', 'inline', 'process', 'process', 'thread_tag', 'custom_tag',
             'async_tagged')
CORO_MODES = ('async', 'async_tagged')
LITERALS = [None, 0, '', False, 7, 'lit', ['__selfunequal__']]      # the last one: a value with x != x (like NaN)

DEFAULT = dict(
    n_max=9, max_depth=3,
    p_sw=0.18, p_oneof=0.18, p_rec=0.14, p_share=0.4, p_markless=0.08,
    p_fail=0.12, p_retry=0.2, p_literal=0.08,
    modes=ALL_MODES, inputs=(0, 1, 2, 3),
    hostile=None,
    rec_inner=False,          # allow switch / one-of inside recurrent subgraphs (hostile)
    cand_fail_only=False,
)


def profile(**kw):
    p = dict(DEFAULT)
    p.update(kw)
    return p


class Gen:
    def __init__(self, rng: random.Random, prof):
        self.rng = rng
        self.p = prof
        self.nodes = {}
        self.order = []
        self.n = 0
        self.sw = 0
        self.flags = {}          # nid -> set of flags: 'case','cand','private_rec','dest','decider'
        self.budget = rng.randint(3, prof['n_max'])
        self.hostile = prof.get('hostile')
        self.injected = set()
        self.rec_done = {}       # rec consumer -> inner nodes of its subgraph
        self.dec_after_rec = set()
        self.unnamed_deciders = set()
        self.free_cases = []
        self.done = set()
        self.last_sub = []
        self.slow_hint = []      # nodes whose completion schedules like to delay (ctl 'starve')
        self.pending_outside = []  # shared dependencies of candidates that the one-of consumer reads as well
        self.rec_inner_pool = []   # nodes inside finished recurrent subgraphs (hostile family rec_outside_consumer)
        self.named_sw = []         # finished named SwitchCase marks (may be declared again by another node)
        self.force_nested = False  # nested_exhaust_shape: the next recurrent subgraph gets a nested one, exhausted on outer re-iteration

    def new_node(self, **kw):
        nid = f'N{self.n}'
        self.n += 1
        node = {'id': nid, 'mode': self.rng.choice(self.p['modes']), 'params': [], 'kind': 'plain',
                'plan': {}}
        if node['mode'] in ('inline', 'process', 'thread_tag', 'async_tagged') and self.rng.random() < 0.15:
            node['tag_style'] = 'str'       # tags spelled as plain strings
        elif node['mode'] == 'async_tagged' and self.rng.random() < 0.5:
            node['tag_style'] = self.rng.choice(['coro_thread', 'coro_process'])     # a coroutine with a pool tag
        if self.rng.random() < 0.1:
            node['factory'] = True          # the class has a default_factory that node objects must come from
        node.update(kw)
        self.nodes[nid] = node
        self.flags[nid] = set()
        self.budget -= 1
        return node

    def finish(self, node):
        self.order.append(node['id'])
        self.done.add(node['id'])

    # -- behaviours ----------------------------------------------------------------------
    def decorate(self, node, allow_fail=True, force_fail=None):
        rng, p = self.rng, self.p
        if rng.random() < p['p_literal'] and node['kind'] == 'plain':
            lits = LITERALS
            node['plan']['ret'] = ['lit', rng.choice(lits)]
        will_fail = force_fail if force_fail is not None else (allow_fail and rng.random() < p['p_fail'])
        retry = None
        if rng.random() < p['p_retry'] or (will_fail and rng.random() < 0.5):
            retry = {'attempts': rng.choice([None, 1, 2, 3]),
                     'delay': rng.choice([None, 0, 0.1, 1.5]),
                     'exceptions': rng.choice([None, ['E1'], ['E1', 'E2']]),
                     'use_default': rng.random() < 0.3}
            node['retry'] = retry
            if retry['use_default'] and rng.random() < 0.25:
                node['plan']['default_none'] = True      # get_default returns None: a value, not "no default"
        if will_fail:
            style = rng.random()
            exc = rng.choice(['E1', 'E1', 'E2', 'EOther', 'E1Sub', 'EFalsy', 'ERt', 'EKey', 'ETimeout'])
            if rng.random() < p.get('p_fatal', 0.0):
                # a BaseException (incl. a CancelledError the body raises itself): propagated by run()
                node['plan']['fail'] = ['ALWAYS', rng.choice(['Fatal', 'ECancel'])]
                node.pop('retry', None)
            elif style < 0.45:
                node['plan']['fail'] = ['ALWAYS', exc]
            else:
                k = rng.randint(1, 3)
                node['plan']['fail'] = [rng.choice(['E1', 'E2', 'EOther', 'E1Sub', 'ERt', 'EKey']) for _ in range(k)]
            if rng.random() < 0.6:
                ins = list(self.p['inputs'])
                node['plan']['fail_when'] = sorted(rng.sample(ins, rng.randint(1, max(1, len(ins) - 1))))
        return node

    # -- structure -----------------------------------------------------------------------
    def shareable(self, visible, in_rec):
        out = []
        lazy_ok = self.rng.random() < self.p.get('p_share_lazy', 0.15)
        cand_ok = self.rng.random() < self.p.get('p_share_cand', 0.1)
        pool = list(visible)
        if not in_rec and self.rng.random() < self.p.get('p_global_share', 0.15):
            # any finished node, also one deep inside another sub-pipeline (a candidate's or a case's private
            # dependency, a node of a sibling branch)
            pool += [n for n in self.order if n in self.done and n not in pool]
        if lazy_ok:
            # finished case nodes of switches anywhere below (outside candidates / recurrent subgraphs): e.g.
            # Y(a: Input(C), b: Input(X)) with X(v: SwitchCase(..., C)) - the case is also consumed by a
            # descendant of the switch consumer
            pool += [c for c in self.free_cases if c not in pool and c in self.done]
        for nid in pool:
            f = self.flags[nid]
            if f & {'private_rec', 'dest'}:
                continue
            if 'case' in f and not lazy_ok:
                continue        # a case that is also consumed directly (C09: "reused")
            if 'cand' in f and self.hostile != 'candidate_shared' and not cand_ok:
                continue        # a candidate that is also consumed directly (D14, repaired as D34): a feature family
            out.append(nid)
        return out

    def lazy_fail_shape(self, consumer, visible):
        """consumer(u: OneOf([A(x: Input(X)), B]), v: SwitchCase(D, [L0: X, L1: Y])): a node X that fails for some
        inputs is the selected case of a switch and at the same time a dependency of (or itself) the first candidate
        of a one-of.  Whichever sub-pipeline reaches X first executes it; the other one has to see the outcome."""
        rng = self.rng

        def plain(flag=None, dep='N0'):
            n = self.new_node()
            n['params'].append(['a', ['in', dep]])
            if flag:
                self.flags[n['id']].add(flag)
            self.budget -= 0
            return n
        x = plain()
        x['plan']['fail'] = ['ALWAYS', rng.choice(['E1', 'E2', 'EOther', 'ERt', 'EKey', 'EKey', 'EKey'])]
        ins = list(self.p['inputs'])
        x['plan']['fail_when'] = sorted(rng.sample(ins, rng.randint(1, len(ins) - 1)))
        self.finish(x)
        if rng.random() < 0.5:
            self.flags[x['id']].add('case')
            case_node = x['id']
        else:
            # the selected case only DEPENDS on X: its sub-pipeline finds X's failure stored by the candidate
            kx = plain('case', x['id'])
            self.finish(kx)
            case_node = kx['id']
        if rng.random() < 0.5:
            a = plain('cand', x['id'])
            self.finish(a)
            first = a['id']
        else:
            self.flags[x['id']].add('cand')
            first = x['id']
        b = plain('cand')
        self.finish(b)
        d = self.new_node(kind='decider')
        self.flags[d['id']].add('decider')
        d['params'].append(['a', ['in', 'N0']])
        d['plan']['labels'] = ['L0', 'L1']
        self.finish(d)
        y = plain('case')
        self.finish(y)
        self.sw += 1
        k = len(consumer['params'])
        marks = [[f'lf{k}', ['oneof', [first, b['id']]]], [f'lf{k + 1}', ['sw', f'sw{self.sw}', d['id'], [['L0', case_node], ['L1', y['id']]]]]]
        if rng.random() < 0.5:
            marks.reverse()
        consumer['params'].extend(marks)
        self.slow_hint.append(rng.choice([d['id'], x['id']]))
        visible.append(d['id'])

    def rec_paths_shape(self, consumer, visible):
        """consumer(w: SwitchCase(D, [L0: DIR(a: Rec), L1: GRD(a: OneOf([CAND(a: Rec), FB]))])): one recurrent subgraph
        is reachable directly and through a one-of candidate, the path is chosen by the input; its start node fails in
        the re-iteration for some inputs (contained on the one path, fatal for the run on the other)."""
        import copy
        rng = self.rng
        mark = self.make_rec(list(visible), 1, in_cand=False, nested_ok=False)
        start, dest = self.nodes[mark[1]], self.nodes[mark[2]]
        ins = list(self.p['inputs'])
        start['plan']['fail_on_ad'] = rng.choice(['E1', 'E2', 'ERt'])
        start['plan']['fail_on_ad_when'] = sorted(rng.sample(ins, 2))
        start.pop('retry', None)
        dest['plan'].pop('iter_by_attempt', None)
        dest['plan'].pop('falsy_ad', None)
        dest['plan']['want_iter'] = {str(v): rng.choice([1, 1, min(2, mark[3])]) for v in ins}

        def mk(flag, params):
            n = self.new_node()
            n['params'] = params
            self.flags[n['id']].add(flag)
            self.finish(n)
            return n['id']
        direct = mk('case', [['a', mark]])
        cand = mk('cand', [['a', copy.deepcopy(mark)]])
        fb = mk('cand', [['a', ['in', 'N0']]])
        grd = mk('case', [['a', ['oneof', [cand, fb]]]])
        d = self.new_node(kind='decider')
        self.flags[d['id']].add('decider')
        d['params'].append(['a', ['in', 'N0']])
        d['plan']['labels'] = ['L0', 'L1']
        d['plan']['label_by_input'] = {str(v): rng.choice(['L0', 'L1']) for v in ins}
        self.finish(d)
        self.sw += 1
        cases = [['L0', direct], ['L1', grd]]
        if rng.random() < 0.5:
            cases.reverse()
        consumer['params'].append([f'rp{len(consumer["params"])}', ['sw', f'sw{self.sw}', d['id'], cases]])

    def rec_side_shape(self, consumer, visible):
        """consumer(r: Rec(S -> M -> D), s: Input(SIDE)), SIDE(a: Input(M), b: Input(SLOW)): an unordered outside reader
        of the inner node M whose other dependency finishes while M is being executed again.  (Hostile: KF-RECOUT.)"""
        rng = self.rng

        def mk(params, flag=None, **kw):
            n = self.new_node(**kw)
            n['params'] = params
            if flag:
                self.flags[n['id']].add(flag)
            self.finish(n)
            return n
        st = mk([['a', ['in', 'N0']]], 'private_rec', start_of=True)
        m = mk([['a', ['in', st['id']]]], 'private_rec')
        d = mk([['a', ['in', m['id']]]], 'dest', kind='dest', recurrent=True)
        d['plan'].update({'start': st['id'], 'want_iter': {str(v): rng.choice([1, 2]) for v in self.p['inputs']}})
        # the slow dependency sits at the end of a chain that is as deep as the destination, so that the sequential
        # launch loop reaches the destination BEFORE the outside reader (otherwise the re-iteration cannot even start
        # before the reader has been launched)
        p1 = mk([['a', ['in', 'N0']]])
        p2 = mk([['a', ['in', p1['id']]]])
        slow = mk([['a', ['in', p2['id']]]])
        side = mk([['a', ['in', m['id']]], ['b', ['in', slow['id']]]])
        k = len(consumer['params'])
        consumer['params'].extend([[f'rs{k}', ['rec', st['id'], d['id'], 3]], [f'rs{k + 1}', ['in', side['id']]]])
        self.slow_hint.extend([slow['id'], m['id']])

    def rec_parallel_shape(self, consumer, visible):
        """consumer(r: Rec(S..D), o: OneOf([F, C2])), S -> A, S -> B, D(a: A, b: B), C2(a: Input(B)), F fails: while a
        re-iteration is blocked on the slow chain A, the second candidate's sub-pipeline asks for the re-armed node B of
        the other chain; B must still be executed once per iteration.  (Hostile: C2 is an unordered outside reader.)"""
        rng = self.rng

        def mk(params, flag=None, **kw):
            n = self.new_node(**kw)
            n['params'] = params
            if flag:
                self.flags[n['id']].add(flag)
            return n
        st = mk([['a', ['in', 'N0']]], 'private_rec', start_of=True)
        self.finish(st)
        a = mk([['a', ['in', st['id']]]], 'private_rec')
        self.finish(a)
        b = mk([['a', ['in', st['id']]]], 'private_rec')
        self.finish(b)
        slow_a = a
        if rng.random() < 0.6:
            # chains of two nodes: the sequential launch loop of the re-iteration blocks on the second node of the slow
            # chain while the second node of the other chain is re-armed but not launched yet
            a2 = mk([['a', ['in', a['id']]]], 'private_rec')
            self.finish(a2)
            b2 = mk([['a', ['in', b['id']]]], 'private_rec')
            self.finish(b2)
            a, b = a2, b2
        params = [['a', ['in', a['id']]], ['b', ['in', b['id']]]]
        if rng.random() < 0.5:
            params.reverse()
        d = mk(params, 'dest', kind='dest', recurrent=True)
        d['plan'].update({'start': st['id'], 'want_iter': {str(v): rng.choice([1, 1, 2]) for v in self.p['inputs']}})
        self.finish(d)
        f = mk([['a', ['in', 'N0']]], 'cand')
        f['plan']['fail'] = ['ALWAYS', rng.choice(['E1', 'E2'])]
        self.finish(f)
        c2 = mk([['a', ['in', b['id']]]], 'cand')
        self.finish(c2)
        k = len(consumer['params'])
        marks = [[f'rq{k}', ['rec', st['id'], d['id'], 2]], [f'rq{k + 1}', ['oneof', [f['id'], c2['id']]]]]
        if rng.random() < 0.5:
            marks.reverse()
        consumer['params'].extend(marks)
        self.slow_hint.extend([slow_a['id'], f['id']])

    def shared_switch_shape(self, consumer, visible):
        """consumer(u: OneOf([A(s: W), B]), v: W) with one NAMED switch W = SwitchCase(D, [L0: K(a: Input(X)), L1: Y]) and
        X failing late for some inputs: the main pipeline and the candidate's sub-pipeline both resolve the same switch
        node and run the same case sub-pipeline, one with contained and one with reported failures."""
        import copy
        rng = self.rng

        def plain(flag=None, dep='N0'):
            n = self.new_node()
            n['params'].append(['a', ['in', dep]])
            if flag:
                self.flags[n['id']].add(flag)
            return n
        x = plain()
        x['plan']['fail'] = ['ALWAYS', rng.choice(['E1', 'E2', 'ERt'])]
        ins = list(self.p['inputs'])
        x['plan']['fail_when'] = sorted(rng.sample(ins, rng.randint(1, len(ins) - 1)))
        self.finish(x)
        k = plain('case', x['id'])
        self.finish(k)
        y = plain('case')
        self.finish(y)
        d = self.new_node(kind='decider')
        self.flags[d['id']].add('decider')
        d['params'].append(['a', ['in', 'N0']])
        d['plan']['labels'] = ['L0', 'L1']
        self.finish(d)
        self.sw += 1
        w = ['sw', f'sw{self.sw}', d['id'], [['L0', k['id']], ['L1', y['id']]]]
        a = self.new_node()
        self.flags[a['id']].add('cand')
        a['params'].append(['s', copy.deepcopy(w)])
        self.finish(a)
        b = plain('cand')
        self.finish(b)
        n = len(consumer['params'])
        marks = [[f'ss{n}', ['oneof', [a['id'], b['id']]]], [f'ss{n + 1}', copy.deepcopy(w)]]
        if rng.random() < 0.5:
            marks.reverse()
        consumer['params'].extend(marks)
        self.slow_hint.extend([x['id'], d['id']])

    def late_oneof_shape(self, consumer, visible):
        """consumer(p: OneOf([G, M]), q: Input(B)), M(v: OneOf([A, B])), G fails: the inner one-of starts late (only
        after G has failed) and finds its LATER candidate B already computed for the consumer; it still has to try A."""
        rng = self.rng

        def plain(flag=None, dep='N0'):
            n = self.new_node()
            n['params'].append(['a', ['in', dep]])
            if flag:
                self.flags[n['id']].add(flag)
            return n
        g = plain('cand')
        g['plan']['fail'] = ['ALWAYS', rng.choice(['E1', 'E2', 'ERt'])]
        if rng.random() < 0.4:
            ins = list(self.p['inputs'])
            g['plan']['fail_when'] = sorted(rng.sample(ins, 3))
        self.finish(g)
        a = plain('cand')
        if rng.random() < 0.3:
            a['plan']['fail'] = ['ALWAYS', 'E1']
            a['plan']['fail_when'] = [rng.choice(list(self.p['inputs']))]
        self.finish(a)
        b = plain('cand')
        self.finish(b)
        m = self.new_node()
        self.flags[m['id']].add('cand')
        m['params'].append(['v', ['oneof', [a['id'], b['id']]]])
        self.finish(m)
        k = len(consumer['params'])
        consumer['params'].append([f'lo{k}', ['oneof', [g['id'], m['id']]]])
        consumer['params'].append([f'lo{k + 1}', ['in', b['id']]])
        self.slow_hint.append(g['id'])

    def sibling_oneof_shape(self, consumer, visible):
        """consumer(u: OneOf([X, B1]), v: OneOf([X, B2])): two one-ofs of one consumer share their first candidate, so
        the second one finds X already started (possibly still in flight, possibly failing later) by the first."""
        rng = self.rng

        def plain(dep='N0'):
            n = self.new_node()
            n['params'].append(['a', ['in', dep]])
            self.flags[n['id']].add('cand')
            return n
        x = plain(rng.choice(self.shareable(visible, False) or ['N0']))
        if rng.random() < 0.5:
            x['plan']['fail'] = ['ALWAYS', rng.choice(['E1', 'E2', 'ERt'])]
            ins = list(self.p['inputs'])
            x['plan']['fail_when'] = sorted(rng.sample(ins, rng.randint(1, len(ins) - 1)))
        self.finish(x)
        b1, b2 = plain(), plain()
        self.finish(b1)
        self.finish(b2)
        consumer['params'].append([f'so{len(consumer["params"])}', ['oneof', [x['id'], b1['id']]]])
        consumer['params'].append([f'so{len(consumer["params"])}', ['oneof', [x['id'], b2['id']]]])
        self.slow_hint.append(x['id'])

    def reusable(self, visible):
        """Finished nodes that may become a case / candidate of a further construct."""
        out = []
        pool = list(visible)
        if self.rng.random() < self.p.get('p_global_share', 0.15):
            pool += [n for n in self.order if n in self.done and n not in pool]
        for nid in pool:
            if nid == 'N0' or nid not in self.done:
                continue
            if self.flags[nid] & {'private_rec', 'dest', 'decider'} or self.nodes[nid].get('start_of') \
                    or self.nodes[nid].get('kind', 'plain') != 'plain':
                continue
            out.append(nid)
        return out

    def make(self, visible, depth, in_rec=False, in_cand=False, role=None):
        """Create a node (and recursively its private dependencies); returns its id."""
        rng, p = self.rng, self.p
        node = self.new_node()
        nid = node['id']
        if role:
            self.flags[nid].add(role)
        local_visible = list(visible)
        nparams = rng.choice([1, 1, 2, 2, 3])
        if self.budget <= 0 or depth <= 0:
            nparams = rng.choice([0, 1, 1]) if rng.random() < p['p_markless'] * 3 else 1
        if nparams == 0 and not in_rec:
            self.decorate(node)
            self.finish(node)
            return nid
        if not in_rec and not in_cand and depth > 0 and self.budget >= 6 and rng.random() < p.get('p_rec_paths_shape', 0.02):
            self.rec_paths_shape(node, local_visible)
        if not in_rec and not in_cand and depth > 0 and self.budget >= 6 and rng.random() < p.get('p_rec_parallel_shape', 0.0):
            if rng.random() < 0.5:
                self.rec_parallel_shape(node, local_visible)
            else:
                self.rec_side_shape(node, local_visible)
        if not in_rec and not in_cand and depth > 0 and self.budget >= 6 and rng.random() < p.get('p_shared_switch_shape', 0.02):
            self.shared_switch_shape(node, local_visible)
        if not in_rec and depth > 0 and self.budget >= 5 and rng.random() < p.get('p_late_oneof_shape', 0.02):
            self.late_oneof_shape(node, local_visible)
        if not in_rec and depth > 0 and self.budget >= 4 and rng.random() < p.get('p_sibling_oneof_shape', 0.02):
            self.sibling_oneof_shape(node, local_visible)
        if not in_rec and depth > 0 and self.budget >= 5 and rng.random() < p.get('p_lazy_fail_shape', 0.03):
            self.lazy_fail_shape(node, local_visible)
        for i in range(max(1, nparams)):
            pname = 'abcdef'[i]
            if rng.random() < p.get('p_odd_names', 0.06):
                # parameter names that are also local names inside the engine (`node` and `node_id` are reserved by the
                # public signature of run_node(node, *args, node_id, **kwargs) and are not used: DESIGN assumptions)
                odd = rng.choice(['error', 'result', 'dag', 'ctx', 'exc', 'loop', 'tags', 'data', 'name', 'key', 'value', 'cls'])
                if odd not in [q for q, _ in node['params']]:
                    pname = odd
            mark = self.make_mark(node, local_visible, depth, in_rec, in_cand)
            node['params'].append([pname, mark])
            if mark[0] == 'sw' and mark[1] is not None and rng.random() < p.get('p_dup', 0.04):
                # the same named switch declared for a second parameter of the node
                import copy
                node['params'].append([f'd{len(node["params"])}', copy.deepcopy(mark)])
            if mark[0] == 'oneof' and self.pending_outside:
                for s_id in self.pending_outside:
                    if s_id not in [m[1] for _, m in node['params'] if m[0] == 'in']:
                        node['params'].append([f'q{len(node["params"])}', ['in', s_id]])
                self.pending_outside = []
            if mark[0] == 'rec' and rng.random() < p.get('p_dup', 0.04) * 2:
                # the consumer of the recurrent result also reads the destination through a plain Input, declared first
                node['params'].insert(len(node['params']) - 1, [f'zr{len(node["params"])}', ['in', mark[2]]])
            if mark[0] == 'rec':
                inner = [x for x in self.last_sub if x != mark[2]]
                self.rec_done[nid] = inner
                self.rec_inner_pool.extend(inner)
                if inner and rng.random() < p.get('p_rec_inner_read', 0.25):
                    # ordered outside consumer: the node that consumes the recurrent result also reads
                    # a node inside the subgraph (must see its final-iteration value)
                    node['params'].append([f'r{len(node["params"])}', ['in', rng.choice(inner)]])
        self.decorate(node)
        self.finish(node)
        return nid

    def pick_dep(self, visible, depth, in_rec, in_cand, avoid=()):
        """An Input dependency: shared visible node or a fresh sub-pipeline or the input node."""
        rng, p = self.rng, self.p
        if self.hostile == 'rec_outside_consumer' and not in_rec and self.rec_inner_pool and rng.random() < 0.35:
            # hostile (KF-RECOUT): a node outside a recurrent subgraph reads a node inside it, unordered
            cand = [x for x in self.rec_inner_pool if x not in avoid]
            if cand:
                return rng.choice(cand)
        sh = [s for s in self.shareable(visible, in_rec) if s not in avoid]
        if sh and (rng.random() < p['p_share'] or self.budget <= 0 or depth <= 0):
            return rng.choice(sh)
        if (self.budget <= 0 or depth <= 0) and 'N0' not in avoid:
            return 'N0'
        nid = self.make(visible, depth - 1, in_rec=in_rec, in_cand=in_cand)
        visible.append(nid)
        return nid

    def make_mark(self, consumer, visible, depth, in_rec, in_cand):
        rng, p = self.rng, self.p
        r = rng.random()
        can_construct = self.budget >= 2 and depth > 0 and (not in_rec or p['rec_inner'])
        if not in_rec and self.named_sw and rng.random() < p.get('p_reuse_switch', 0.05):
            # the same named switch (one synthetic switch node) is consumed by another node as well
            import copy
            return copy.deepcopy(rng.choice(self.named_sw))
        if can_construct and r < p['p_sw']:
            return self.make_switch(visible, depth, in_rec, in_cand)
        if can_construct and r < p['p_sw'] + p['p_oneof']:
            return self.make_oneof(visible, depth, in_rec, in_cand)
        if self.budget >= 2 and depth > 0 and not in_rec and r < p['p_sw'] + p['p_oneof'] + p['p_rec']:
            return self.make_rec(visible, depth, in_cand)
        used = [m[1] for _, m in consumer['params'] if m[0] == 'in']
        if used and rng.random() < (0.5 if self.hostile == 'dup_param' else p.get('p_dup', 0.04)):
            return ['in', rng.choice(used)]
        return ['in', self.pick_dep(visible, depth, in_rec, in_cand, avoid=used)]

    def make_switch(self, visible, depth, in_rec, in_cand):
        rng = self.rng
        # decider
        after_rec = None
        sh = self.shareable(visible, in_rec)
        shared_deciders = [v for v in visible if 'decider' in self.flags[v] and v not in self.dec_after_rec]
        reuse = None
        if shared_deciders and rng.random() < self.p.get('p_share_decider', 0.3):
            reuse = rng.choice(shared_deciders)
            decider = reuse
        else:
            dn = self.new_node(kind='decider')
            self.flags[dn['id']].add('decider')
            recs = [v for v in visible if v in self.rec_done and self.rec_done[v]]
            after_rec = None
            if recs and rng.random() < self.p.get('p_rec_inner_read', 0.25) * 2:
                after_rec = rng.choice(recs)
                dn['params'].append(['a', ['in', after_rec]])
            else:
                dn['params'].append(['a', ['in', self.pick_dep(visible, depth - 1, in_rec, in_cand)]])
            decider = dn['id']
        if after_rec is not None:
            self.dec_after_rec.add(decider)
        ncases = rng.randint(1, 3)
        labels = [f'L{i}' for i in range(ncases)]
        odd = reuse is None and rng.random() < self.p.get('p_odd_labels', 0.12)
        if odd:
            # declared labels need not be truthy strings: '', 0, 1 and strings that look like other values
            labels = rng.sample(['', 0, 1, '1', 'None', '0', None], ncases)      # None is a legitimate declared label too
        if reuse is not None:
            # a second SwitchCase mark on the same switch node: it must have a case for every label
            labels = [l for l in self.nodes[reuse]['plan']['labels'] if l != 'ZZZ']
        cases = []
        for lab in labels:
            pool = [] if (in_rec or after_rec is not None) else [x for x in self.reusable(visible)
                                                                   if x not in [cc for _, cc in cases] and x != decider]
            if pool and rng.random() < self.p.get('p_reuse_lazy', 0.12):
                # an existing node (plain, a candidate of a one-of, a case of another switch) is a case as well
                c = rng.choice(pool)
                self.flags[c].add('case')
                cases.append([lab, c])
                continue
            c = self.make(list(visible), depth - 1, in_rec=in_rec, in_cand=in_cand, role='case')
            cases.append([lab, c])
            visible.append(c)
            if not in_rec and not in_cand and after_rec is None:
                self.free_cases.append(c)
            if after_rec is not None and rng.random() < 0.7:
                # the case sub-pipeline starts only after the recurrent result exists (decider depends on
                # it) and reads a node inside the subgraph
                self.nodes[c]['params'].append([f'r{len(self.nodes[c]["params"])}', ['in', rng.choice(self.rec_done[after_rec])]])
        dn = self.nodes[decider]
        if reuse is None:
            dn['plan']['labels'] = list(labels)
        if reuse is None and self.hostile == 'switch_unknown_label' and 'switch_unknown_label' not in self.injected:
            unknown = rng.choice(['ZZZ', None, None, 0, '', ['L0'], {}])      # a label no case declares (incl. None / falsy / unhashable)
            alike = {'1': 1, 1: '1', 'None': None, None: 'None', '0': 0, 0: '0'}
            twins = [alike[l] for l in labels if l in alike and alike[l] not in labels]
            if twins:
                unknown = rng.choice(twins)      # equal to a declared label only after str() / int()
            elif unknown in labels:
                unknown = 'ZZZ'
            dn['plan']['labels'] = list(labels) + ['ZZZ']
            dn['plan']['label_by_input'] = {str(rng.choice(self.p['inputs'])): unknown}
            self.injected.add('switch_unknown_label')
        if reuse is None and not odd and rng.random() < 0.15:
            dn['plan']['label_enum'] = True      # returns str-enum members equal to the declared labels
        if reuse is None:
            self.finish(dn)
            visible.append(decider)
        self.sw += 1
        p_un = self.p.get('p_unnamed_switch', 0.3)
        if decider in self.unnamed_deciders:
            p_un = 0.8          # several unnamed SwitchCase marks on one switch node
        name = None if rng.random() < p_un else f'sw{self.sw}'
        if name is None:
            self.unnamed_deciders.add(decider)
        elif not in_rec and after_rec is None:
            self.named_sw.append(['sw', name, decider, [list(c) for c in cases]])
        return ['sw', name, decider, cases]

    def contain_shape(self, c, visible):
        """Containment shape (C10): candidate `c` gets a private dependency that always fails and a dependency S
        that a consumer outside the candidate needs as well, so S may still be in flight when the candidate is
        lost.  Both are defined before the candidate."""
        rng = self.rng
        node = self.nodes[c]
        at = self.order.index(c)
        used = [m[1] for _, m in node['params'] if m[0] == 'in']
        sh = [x for x in self.shareable(visible, False) if x != 'N0' and x != c and self.order.index(x) < at]
        if sh and rng.random() < 0.5:
            s_id = rng.choice(sh)
        else:
            sn = self.new_node()
            sn['params'].append(['a', ['in', 'N0']])
            if rng.random() < 0.3:
                sn['mode'] = 'async'
            self.order.insert(at, sn['id'])
            self.done.add(sn['id'])
            s_id = sn['id']
            at += 1
        fz = self.new_node()
        fz['params'].append(['a', ['in', 'N0']])
        fz['plan']['fail'] = ['ALWAYS', rng.choice(['E1', 'E2', 'EOther', 'ERt'])]
        self.order.insert(at, fz['id'])
        self.done.add(fz['id'])
        if s_id not in used:
            node['params'].append([f's{len(node["params"])}', ['in', s_id]])
        node['params'].append([f'f{len(node["params"])}', ['in', fz['id']]])
        self.slow_hint.append(s_id)
        if s_id not in visible:
            visible.append(s_id)
        return s_id

    def deep_chain(self, visible):
        """candidate C(a: sw(D, [L0: K])), K(a: Input(M)), M(a: Rec(S..T)): a recurrent subgraph behind an ordinary
        node of a switch case inside a one-of candidate; for some inputs the subgraph is exhausted without default."""
        rng = self.rng
        mark = self.make_rec(list(visible), 1, in_cand=True, nested_ok=False)
        dest = self.nodes[mark[2]]
        mx = mark[3]
        dest['plan'].pop('iter_by_attempt', None)
        dest['plan'].pop('falsy_ad', None)
        dest['plan']['want_iter'] = {str(v): rng.choice([0, 1, mx + 1, mx + 1]) for v in self.p['inputs']}
        if rng.random() < 0.7:
            dest.pop('retry', None)
        m = self.new_node()
        m['params'].append(['a', mark])
        self.finish(m)
        k = self.new_node()
        self.flags[k['id']].add('case')
        k['params'].append(['a', ['in', m['id']]])
        self.finish(k)
        d = self.new_node(kind='decider')
        self.flags[d['id']].add('decider')
        d['params'].append(['a', ['in', 'N0']])
        d['plan']['labels'] = ['L0']
        self.finish(d)
        self.sw += 1
        c = self.new_node()
        self.flags[c['id']].add('cand')
        c['params'].append(['a', ['sw', f'sw{self.sw}', d['id'], [['L0', k['id']]]]])
        self.finish(c)
        return c['id']

    def make_oneof(self, visible, depth, in_rec, in_cand):
        rng = self.rng
        n = rng.randint(1, 3)
        contain = not in_rec and self.budget >= 2 and rng.random() < self.p.get('p_contain_shape', 0.1)
        if contain:
            n = max(n, 2)
        cands = []
        outside = []
        share_private = rng.random() < self.p.get('p_cand_share_deps', 0.35)
        i = -1
        while i + 1 < n:
            i += 1
            reuse = [] if in_rec else [x for x in self.reusable(visible) if x not in cands]
            if reuse and rng.random() < self.p.get('p_reuse_lazy', 0.12):
                # an existing node (plain, a case of a switch, a candidate of another one-of) is a candidate as well
                c = rng.choice(reuse)
                self.flags[c].add('cand')
                cands.append(c)
                continue
            n0 = self.n
            if not in_rec and i == 0 and self.budget >= 2 and rng.random() < self.p.get('p_nested_exhaust_shape', 0.02):
                # candidate -> outer recurrent subgraph -> nested inner one that is exhausted (no default) only while
                # the outer one re-iterates; the next candidate has to take over
                self.force_nested = True
                mark = self.make_rec(list(visible), 2, in_cand=True, nested_ok=True)
                self.force_nested = False
                dest = self.nodes[mark[2]]
                dest['plan'].pop('iter_by_attempt', None)
                dest['plan'].pop('falsy_ad', None)
                dest['plan']['want_iter'] = {str(v): rng.choice([1, 1, 0]) for v in self.p['inputs']}
                cn = self.new_node()
                self.flags[cn['id']].add('cand')
                cn['params'].append(['a', mark])
                self.finish(cn)
                c = cn['id']
                n = max(n, 2)
            elif not in_rec and i == 0 and self.budget >= 2 and rng.random() < self.p.get('p_deep_chain', 0.04):
                c = self.deep_chain(visible)
                n = max(n, 2)
            else:
                c = self.make(list(visible), depth - 1, in_rec=in_rec, in_cand=True, role='cand')
            cands.append(c)
            if share_private and not in_rec:
                # later candidates (and later parameters of the consumer) may share the upstream nodes of this one
                for k in range(n0, self.n):
                    x = f'N{k}'
                    if x != c and x in self.done and x not in visible and not (self.flags[x] & {'private_rec', 'dest', 'case', 'cand', 'decider'}) \
                            and not self.nodes[x].get('start_of'):
                        visible.append(x)
            if contain and i == 0 and self.nodes[c]['kind'] == 'plain' and not self.nodes[c].get('start_of') \
                    and not self.nodes[c]['plan'].get('fail'):
                outside.append(self.contain_shape(c, visible))
            visible.append(c)
            if rng.random() < self.p.get('p_cand_falsy', 0.12) and self.nodes[c]['kind'] == 'plain':
                # a candidate whose legitimate value is None / falsy still wins its one-of
                self.nodes[c]['plan']['ret'] = ['lit', rng.choice([None, None, 0, '', False, []])]
            # make early candidates fail often so that fallbacks are exercised
            node = self.nodes[c]
            if i < n - 1 and rng.random() < 0.5:
                # fail one level above the candidate (a private dependency), so that the candidate's other
                # dependencies - possibly shared with other consumers - may still be in flight when it fails
                priv = [m[1] for _, m in node['params'] if m[0] == 'in' and m[1] != 'N0'
                        and m[1] not in visible[:len(visible) - 1 - i] and self.nodes[m[1]]['kind'] == 'plain'
                        and not self.nodes[m[1]].get('start_of')]
                if priv and len(node['params']) >= 2:
                    node = self.nodes[rng.choice(priv)]
            if i < n - 1 and rng.random() < 0.6 and not node['plan'].get('fail'):
                node['plan']['fail'] = ['ALWAYS', rng.choice(['E1', 'E2', 'EOther', 'EFalsy', 'ERt'])]
                node.pop('retry', None)
                if rng.random() < 0.5:
                    ins = list(self.p['inputs'])
                    node['plan']['fail_when'] = sorted(rng.sample(ins, rng.randint(1, len(ins) - 1)))
        self.pending_outside = outside
        return ['oneof', cands]

    def make_inner_rec(self, outer_sub, visible):
        """A nested recurrent subgraph consumed by a node of the outer subgraph.  Its start node ignores
        additional_data (DESIGN A5) and the destination iterates a fixed number of times per arguments."""
        rng = self.rng
        s2 = self.new_node(start_of=True)
        s2['plan']['use_ad'] = False
        self.flags[s2['id']].add('private_rec')
        src = rng.choice(outer_sub) if (rng.random() < 0.7 or self.force_nested) else (rng.choice(self.shareable(visible, False) or ['N0']))
        s2['params'].append(['a', ['in', src]])
        self.finish(s2)
        chain = [s2['id']]
        if rng.random() < 0.5 and self.budget >= 2:
            m2 = self.new_node()
            self.flags[m2['id']].add('private_rec')
            m2['params'].append(['a', ['in', s2['id']]])
            self.finish(m2)
            chain.append(m2['id'])
        mx = rng.randint(1, 2)
        d2 = self.new_node(kind='dest', recurrent=True)
        self.flags[d2['id']].add('dest')
        d2['params'].append(['a', ['in', chain[-1]]])
        if rng.random() < 0.4:
            # an input that only the outer subgraph re-computes
            d2['params'].append(['b', ['in', rng.choice(outer_sub)]])
        d2['plan'].update({'start': s2['id'], 'iter_by_attempt': rng.randint(0, mx + 1)})
        if src in outer_sub and rng.random() < 0.35:
            # exhausted (or not) only while the OUTER subgraph re-iterates: its arguments then carry the outer
            # start node's additional_data
            d2['plan']['iter_by_attempt'] = rng.randint(0, mx)
            d2['plan']['iter_by_attempt_outer'] = rng.choice([mx + 1, mx + 1, 0])
            d2['plan']['outer_start'] = outer_sub[0]
        if rng.random() < 0.5:
            d2['retry'] = {'use_default': True}
        if self.force_nested:
            d2['plan']['iter_by_attempt'] = rng.randint(0, mx)
            d2['plan']['iter_by_attempt_outer'] = mx + 1
            d2['plan']['outer_start'] = outer_sub[0]
            d2.pop('retry', None)
            self.force_nested = False
        self.finish(d2)
        return ['rec', s2['id'], d2['id'], mx]

    def make_rec(self, visible, depth, in_cand, nested_ok=True):
        rng = self.rng
        # start node
        start = self.new_node(start_of=True)
        sid = start['id']
        self.flags[sid].add('private_rec')
        nparams = rng.choice([1, 1, 2])
        for i in range(nparams):
            used = [m[1] for _, m in start['params']]
            start['params'].append(['abc'[i], ['in', self.pick_dep(visible, depth - 1, False, in_cand, avoid=used)]])
        self.decorate(start, allow_fail=False)
        self.finish(start)
        # chain of private nodes
        sub = [sid]
        length = rng.randint(0, 2)
        if self.force_nested:
            length = max(1, length)
        for _ in range(length):
            if self.budget <= 1 and not self.force_nested:
                break
            mid = self.new_node()
            self.flags[mid['id']].add('private_rec')
            mid['params'].append(['a', ['in', rng.choice(sub)]])
            if rng.random() < 0.4:
                other = [s for s in sub if ['a', ['in', s]] not in mid['params']]
                if other:
                    mid['params'].append(['b', ['in', rng.choice(other)]])
            if rng.random() < 0.3:
                sh = self.shareable(visible, False)
                if sh:
                    mid['params'].append(['c', ['in', rng.choice(sh)]])
            if self.p.get('rec_inner') and self.budget >= 3 and rng.random() < 0.6:
                # a switch (or one-of) strictly inside the subgraph: decider and cases depend on subgraph nodes
                if rng.random() < 0.75:
                    dn = self.new_node(kind='decider')
                    self.flags[dn['id']].add('private_rec')
                    dn['params'].append(['a', ['in', rng.choice(sub)]])
                    labs = [f'L{i}' for i in range(rng.randint(1, 3))]
                    dn['plan']['labels'] = labs
                    self.finish(dn)
                    cs = []
                    for lab in labs:
                        c = self.new_node()
                        self.flags[c['id']].update({'private_rec', 'case'})
                        # a case may also sit OUTSIDE the subgraph (it does not depend on the start node): its result
                        # of the first pass stays visible while the other cases are executed again
                        c['params'].append(['a', ['in', rng.choice(sub) if rng.random() < 0.7 else 'N0']])
                        self.finish(c)
                        cs.append([lab, c['id']])
                    self.sw += 1
                    mid['params'].append(['s', ['sw', f'sw{self.sw}', dn['id'], cs]])
                else:
                    cands = []
                    for _i in range(rng.randint(1, 2)):
                        c = self.new_node()
                        self.flags[c['id']].update({'private_rec', 'cand'})
                        c['params'].append(['a', ['in', rng.choice(sub)]])
                        self.finish(c)
                        cands.append(c['id'])
                    mid['params'].append(['o', ['oneof', cands]])
            if self.force_nested or (nested_ok and self.budget >= 3 and rng.random() < self.p.get('p_rec_nested', 0.2)):
                mid['params'].append(['n', self.make_inner_rec(sub, visible)])
            self.decorate(mid, allow_fail=rng.random() < 0.3)
            self.finish(mid)
            sub.append(mid['id'])
        mx = rng.choice([0, 1, 1, 2, 2, 3, 3])      # max_iterations=0: no re-iteration is allowed at all
        dest = self.new_node(kind='dest', recurrent=True)
        did = dest['id']
        self.flags[did].add('dest')
        dest['params'].append(['a', ['in', sub[-1]]])
        if len(sub) > 1 and rng.random() < 0.4:
            dest['params'].append(['b', ['in', rng.choice(sub[:-1])]])
        want = rng.randint(0, mx + 1)
        if rng.random() < 0.5:
            want = {str(v): rng.randint(0, mx + 1) for v in self.p['inputs']}
        dest['plan'].update({'start': sid, 'want_iter': want})
        if rng.random() < self.p.get('p_falsy_ad', 0.15):
            # the payload of next_iteration() is falsy (0, '', False, ()): still has to reach the start node
            dest['plan'].pop('want_iter')
            dest['plan']['iter_by_attempt'] = rng.randint(1, max(1, mx))
            dest['plan']['falsy_ad'] = [rng.choice([0, '', False, []])]
        # nodes really on a dependency path start -> dest (dangling mids are not part of the subgraph)
        on_path = set()
        st = [did]
        while st:
            x = st.pop()
            if x in on_path:
                continue
            on_path.add(x)
            st.extend(m[1] for _, m in self.nodes[x]['params'] if m[0] == 'in' and m[1] in sub)
        self.last_sub = [x for x in sub if x in on_path] + [did]
        if rng.random() < 0.5:
            dest['retry'] = {'use_default': True}
        self.finish(dest)
        return ['rec', sid, did, mx]

    def build(self):
        rng = self.rng
        inp = self.new_node(plain_params=['x'])
        inp['mode'] = rng.choice(self.p['modes'])
        extra = {}
        if rng.random() < self.p.get('p_extra_inputs', 0.2):
            # the caller passes further input_kwargs (None / falsy values included); some are declared parameters of
            # the input node, the others reach its **kwargs catch-all: the node gets exactly the caller's dict
            for name in rng.sample(['y', 'z', 'opt', 'limit'], rng.randint(1, 3)):
                extra[name] = rng.choice([None, None, None, 0, '', False, [], 'v', 7])
                if rng.random() < 0.6:
                    inp['plain_params'].append(name)
        self.finish(inp)
        self.budget += 1
        out = self.make(['N0'], self.p['max_depth'])
        prog = {'nodes': self.nodes, 'order': self.order, 'input': 'N0', 'output': out}
        if extra:
            prog['extra_inputs'] = extra
        if self.slow_hint:
            prog['hints'] = {'slow': list(self.slow_hint)}
        return prog


def add_generics(prog, rng, p=0.12, only=None):
    """Turn some plain nodes into build_node() derivatives of a generic base class (same behaviour).
    only=<node id> with p=1.0: exactly that node."""
    import copy
    for nid in list(prog['order']):
        n = prog['nodes'][nid]
        if only is not None and nid != only:
            continue
        if nid == prog['input'] or n.get('kind', 'plain') != 'plain' or not n.get('params'):
            continue
        if rng.random() < (p * 2 if n.get('start_of') else p) or (p >= 1.0 and nid == only):
            base_id = 'G' + nid[1:] if nid[0] == 'N' else 'G' + nid
            base = copy.deepcopy(n)
            base['id'] = base_id
            base['generic_base'] = True
            base['nm'] = ['custom', 'base_' + nid]
            prog['nodes'][base_id] = base
            n['generic_of'] = base_id
            if rng.random() < 0.6:
                n['dep_default'] = True      # build_node(dependencies_default=...): an extra keyword for the body
            if n.get('mode') not in ('async', 'async_tagged') and rng.random() < 0.4:
                n['attrs_tags'] = True       # build_node(attrs={'tags': ...}): the derived node sets the execution mode
                base['attrs_tags_base'] = True
            if n.get('retry') and rng.random() < 0.6:
                # build_node(attrs={'attempts': ..., 'exceptions': ..., 'use_default': ...}): the retry settings belong to
                # the derived node only, the generic base class keeps the defaults
                n['attrs_retry'] = True
                base['retry'] = None
            prog['order'].insert(prog['order'].index(nid), base_id)
    return prog


def gen_program(rng, prof=None):
    g = Gen(rng, prof or DEFAULT)
    prog = g.build()
    if (prof or DEFAULT).get('p_generic', 0.0):
        add_generics(prog, rng, (prof or DEFAULT)['p_generic'])
    defuse_fatal(prog)
    prog['tags'] = sorted(analyze(prog))
    return prog


def defuse_fatal(prog):
    """A BaseException raised in the sub-pipeline of a one-of candidate or of a switch case races with the
    contained failures of that sub-pipeline (whichever is seen first decides between "next candidate" and "run
    raises"): both outcomes are legitimate, so the generator keeps BaseException outcomes out of lazily
    evaluated sub-pipelines."""
    lazy = set()
    for node in prog['nodes'].values():
        for _, m in node.get('params', []):
            roots = m[1] if m[0] == 'oneof' else [c for _, c in m[3]] if m[0] == 'sw' else []
            for r in roots:
                lazy |= ancestors(prog, r) | {r}
    for nid in lazy:
        f = (prog['nodes'][nid].get('plan') or {}).get('fail')
        if f and any(x in ('Fatal', 'ECancel') for x in f):
            prog['nodes'][nid]['plan']['fail'] = ['E1' if x in ('Fatal', 'ECancel') else x for x in f]


# ----------------------------------------------------------------------------------------------
# Structural analysis
# ----------------------------------------------------------------------------------------------

def consumers(prog):
    """node -> list of (consumer, pname, kind) where kind in in/decider/case/cand/dest"""
    cons = {n: [] for n in prog['nodes']}
    for nid, node in prog['nodes'].items():
        for pname, m in node.get('params', []):
            k = m[0]
            if k == 'in':
                cons[m[1]].append((nid, pname, 'in'))
            elif k == 'sw':
                cons[m[2]].append((nid, pname, 'decider'))
                for _, c in m[3]:
                    cons[c].append((nid, pname, 'case'))
            elif k == 'oneof':
                for c in m[1]:
                    cons[c].append((nid, pname, 'cand'))
            elif k == 'rec':
                cons[m[2]].append((nid, pname, 'dest'))
    return cons


def deps(prog, nid):
    out = []
    for pname, m in prog['nodes'][nid].get('params', []):
        k = m[0]
        if k == 'in':
            out.append(m[1])
        elif k == 'sw':
            out.append(m[2])
            out.extend(c for _, c in m[3])
        elif k == 'oneof':
            out.extend(m[1])
        elif k == 'rec':
            out.append(m[2])
    return out


def ancestors(prog, nid):
    seen = set()
    st = [nid]
    while st:
        n = st.pop()
        for d in deps(prog, n):
            if d not in seen:
                seen.add(d)
                st.append(d)
    return seen


def reachable(prog):
    return ancestors(prog, prog['output']) | {prog['output'], prog['input']}


def eager_closure(prog, root):
    """Nodes a (sub-)pipeline rooted at `root` runs eagerly: In / decider / rec-dest edges."""
    seen = set()
    st = [root]
    while st:
        n = st.pop()
        if n in seen:
            continue
        seen.add(n)
        for _, m in prog['nodes'][n].get('params', []):
            if m[0] == 'in':
                st.append(m[1])
            elif m[0] == 'sw':
                st.append(m[2])
            elif m[0] == 'rec':
                st.append(m[2])
    return seen


def features(prog):
    f = set()
    for nid in reachable(prog):
        node = prog['nodes'][nid]
        for _, m in node.get('params', []):
            f.add(m[0])
        if node.get('retry'):
            f.add('retry')
        if (node.get('plan') or {}).get('fail'):
            f.add('fail')
        if not node.get('params') and nid != prog['input']:
            f.add('markless')
    return f


def can_fail(node):
    return bool((node.get('plan') or {}).get('fail'))


def pessimistic_tags(prog):
    """Tags to assume when any node may fail (collaborator faults turn into node failures)."""
    t = set(analyze(prog))
    out = set()
    if 'switch_in_candidate' in t:
        out.add('cand_fail_via_switch')
    if 'rec_in_candidate' in t:
        out.add('cand_fail_in_rec')
    cons = consumers(prog)
    reach = reachable(prog)
    for nid in reach:
        for pname, m in prog['nodes'][nid].get('params', []):
            if m[0] != 'oneof':
                continue
            for c in m[1]:
                clo = ancestors(prog, c) | {c}
                for n in clo:
                    if n == prog['input']:
                        continue
                    if any(cc in reach and cc not in clo for cc, _, _ in cons[n]):
                        out.add('cand_fail_shared')
    return out


def dynamic_two_scopes(prog, ref):
    """Is a recurrent destination inside two sub-pipeline scopes that are both ACTIVE in this run (main pipeline,
    the selected case of every evaluated switch, the candidates every evaluated one-of really tried)?"""
    nodes = prog['nodes']
    cons = consumers(prog)
    roots = []
    st = [(prog['output'], 0, None)]
    while st and len(roots) < 400:
        root, d, via = st.pop()
        roots.append((root, via))
        if d > 6:
            continue
        for x in eager_closure(prog, root):
            for pname, m in nodes[x].get('params', []):
                if m[0] == 'sw':
                    sel = ref.label_of.get((x, pname))
                    if sel:
                        st.append((sel[1], d + 1, m[2]))
                elif m[0] == 'oneof':
                    for c in ref.tried_of.get((x, pname), []):
                        st.append((c, d + 1, None))
    closures = [(r, eager_closure(prog, r), via) for r, via in roots]
    dests = {m[2] for n in nodes.values() for _, m in n.get('params', []) if m[0] == 'rec'}
    for dest in dests:
        k = 0
        for r, clo, via in closures:
            if dest in clo and not _scope_ordered_after(prog, cons, via, dest):
                k += 1
        if k > 1:
            return True
    return False


def _ordered_after(prog, cons, y, dest):
    """Is node y started only after the recurrent destination `dest` has its final value?
    True if a consumer of dest (through the Rec mark) is an ancestor of y or y itself, or y belongs to
    the sub-pipeline of a switch case whose decider has such an ancestor."""
    rcons = {c for c, _, k in cons[dest] if k == 'dest'}
    if not rcons:
        return False
    if y in rcons or rcons & eager_closure(prog, y):
        return True      # eager dependencies only: a consumer of dest behind a case / candidate link does not order y
    # y is a case of switches whose deciders are ordered after dest - and nothing else consumes it (a case that is
    # also consumed directly belongs to the sub-pipeline of that consumer and starts as soon as it is ready)
    reach = reachable(prog)
    if any(k != 'case' for c, _, k in cons.get(y, []) if c in reach):
        return False
    ordered = unordered = 0
    for nid, node in prog['nodes'].items():
        if nid not in reach:
            continue
        for _, m in node.get('params', []):
            if m[0] == 'sw' and any(y == c for _, c in m[3]):
                dec_anc = eager_closure(prog, m[2])
                if rcons & dec_anc:
                    ordered += 1
                else:
                    unordered += 1
    return ordered > 0 and unordered == 0


def _scope_ordered_after(prog, cons, via, dest):
    """A case scope spawned by the switch whose decider is `via` can only start after `dest` is final: the decider
    eagerly depends on a consumer of the recurrent result.  (`via` None: a candidate scope or the main pipeline.)"""
    if via is None:
        return False
    rcons = {c for c, _, k in cons.get(dest, []) if k == 'dest'}
    if not rcons:
        return False
    return bool(rcons & eager_closure(prog, via))


def analyze(prog):
    """Hostile-family tags (structural)."""
    tags = set()
    nodes = prog['nodes']
    cons = consumers(prog)
    reach = reachable(prog)
    recs = []
    for nid in reach:
        node = nodes[nid]
        seen_targets = {}
        for pname, m in node.get('params', []):
            k = m[0]
            tgt = None
            if k == 'in':
                tgt = m[1]
            elif k == 'rec':
                tgt = m[2]
                recs.append((m[1], m[2], m[3], nid))
            if tgt is not None:
                if tgt in seen_targets:
                    tags.add('dup_param')
                seen_targets[tgt] = pname
    for nid in reach:
        kinds = [c for c in cons[nid] if c[0] in reach]
        ks = {k for _, _, k in kinds}
        if 'case' in ks and len(kinds) > 1:
            tags.add('case_shared')
        if 'cand' in ks and len(kinds) > 1:
            tags.add('candidate_shared')
        if 'dest' in ks and ks != {'dest'}:
            tags.add('dest_plain_consumer')
        node = nodes[nid]
        if 'cand' in ks:
            ret = (node.get('plan') or {}).get('ret')
            if ret and ret[1] is None:
                tags.add('candidate_none')
    # recurrent structure
    from rv.refsem import Ref
    r = Ref(prog, 'an', 0)
    pairs = {}
    for start, dest, mx, consumer in recs:
        pairs.setdefault(dest, set()).add((start, mx))
        sub = r.sub_nodes(start, dest)
        for n in sub:
            if n == dest:
                continue
            for c, _, _ in cons[n]:
                if c in reach and c not in sub:
                    if _ordered_after(prog, cons, c, dest):
                        tags.add('rec_inner_read_ordered')
                    else:
                        tags.add('rec_outside_consumer')
            for _, m in nodes[n].get('params', []):
                if m[0] in ('sw', 'oneof'):
                    tags.add('rec_inner_' + m[0])
                if m[0] == 'rec':
                    tags.add('rec_nested')
        for _, m in nodes[dest].get('params', []):
            if m[0] in ('sw', 'oneof'):
                tags.add('rec_inner_' + m[0])
            if m[0] == 'rec':
                tags.add('rec_nested')
        if start not in ancestors(prog, dest):
            tags.add('rec_start_not_ancestor')
    for dest, ps in pairs.items():
        if len(ps) > 1:
            tags.add('rec_multi_pair')
    # scope instances: every _run_dag call of the engine is one scope: the main pipeline; for every scope
    # that contains a one-of consumer, one scope per candidate; for every scope that contains a switch
    # consumer, one scope for a case (over-approximated: every case), unless the case can only start after a
    # recurrent destination is final.  A construct consumer that occurs in k scopes spawns its sub-scopes k times.
    def instances():
        out = []
        st = [(prog['output'], 0, None)]
        while st and len(out) < 400:
            root, d, via = st.pop()
            out.append((root, via))
            if d > 6:
                continue
            for x in eager_closure(prog, root):
                for _, m in nodes[x].get('params', []):
                    if m[0] == 'sw':
                        for _, c in m[3]:
                            st.append((c, d + 1, m[2]))
                    elif m[0] == 'oneof':
                        for c in m[1]:
                            st.append((c, d + 1, None))
        return out
    inst = instances()
    closures = [(r, eager_closure(prog, r), via) for r, via in inst]

    def occ(x, dest_for_order=None):
        n = 0
        for r, clo, via in closures:
            if x in clo:
                if dest_for_order is not None and _scope_ordered_after(prog, cons, via, dest_for_order):
                    continue
                n += 1
        return n
    for n in reach:
        if n == prog['input']:
            continue
        if occ(n) > 1:
            tags.add('node_in_two_scopes')
            break
    for start, dest, mx, consumer in recs:
        if occ(dest, dest) > 1:
            # structural over-approximation (every case of every switch and every candidate is a scope); the
            # known-finding family 'rec_two_scopes' is the DYNAMIC refinement computed per run by
            # dynamic_two_scopes() from the cases / candidates the reference really evaluates
            tags.add('rec_two_scopes_static')
    starts = [s for s, _, _, _ in recs]
    if len(set((s, d) for s, d, _, _ in recs)) != len(set(starts)):
        tags.add('rec_shared_start')
    # one-of: failures deep in candidate sub-pipelines / switches in failing candidates
    for nid in reach:
        for pname, m in nodes[nid].get('params', []):
            if m[0] != 'oneof':
                continue
            for c in m[1]:
                depth = {c: 0}
                st = [c]
                while st:
                    n = st.pop()
                    for d in deps(prog, n):
                        if d not in depth or depth[d] > depth[n] + 1:
                            depth[d] = depth[n] + 1
                            st.append(d)
                anyfail = False
                for n, dep in depth.items():
                    if can_fail(nodes[n]):
                        anyfail = True
                        if dep >= 3:
                            tags.add('oneof_fail_depth3')
                        if dep >= 1:
                            tags.add('oneof_fail_above_candidate')
                        # a failing node shared with something outside this candidate
                        for cc, _, _ in cons[n]:
                            if cc in reach and cc not in depth and n != c:
                                tags.add('oneof_fail_shared')
                    kinds = {mm[0] for _, mm in nodes[n].get('params', [])}
                    if 'sw' in kinds:
                        tags.add('switch_in_candidate')
                    if 'rec' in kinds:
                        tags.add('rec_in_candidate')
                    if 'oneof' in kinds:
                        tags.add('oneof_nested')
                if anyfail and any('sw' in {mm[0] for _, mm in nodes[n].get('params', [])} for n in depth):
                    tags.add('switch_in_failing_candidate')
    for nid in reach:
        node = nodes[nid]
        if node.get('kind') == 'decider':
            labs = (node.get('plan') or {}).get('labels') or []
            if 'ZZZ' in labs:
                tags.add('switch_unknown_label')
    return tags
