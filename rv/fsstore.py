"""C18: FileSystemArtifactStore against an in-memory dict model over random operation sequences."""
from __future__ import annotations

import asyncio
import os
import random
import shutil
import types
import warnings

from rv import harness
from rv.monitors import F
from rv.props import Acc

RULES = {}
VERIF = os.path.dirname(os.path.dirname(os.path.abspath(__file__)))

SAFE_IDS = ['a', 'b', 'node1', 'processor__N1', 'processor__N2', 'switch__sw1', 'input_one_of__0___processor__N3',
            'узел', 'with space', 'n' * 120, 'UPPER', 'a-b_c']
DOT_IDS = ['x', 'x.y', 'x.y.z', 'x.pickle', 'x.json', 'a.b', 'a', 'model.v1', 'model', 'model.v1.final']
GLOB_IDS = ['a*', 'a?', '[ab]', 'ab', 'a', 'b', '*', 'x[1]', 'x1', '?']
HIDDEN_IDS = ['.node', '..node', '.node.sub', 'node', '.x', 'x']      # ids with a leading dot (dot-files)

VALUES = [0, 1, -5, 3.25, 'text', 'юникод', '', None, True, [1, 2, 3], {'k': 'v', 'n': [1, {'z': None}]},
          [], {}, [[1], [2, [3]]], 'x' * 300]
PICKLE_ONLY = [(1, 2), {1: 'int key'}, {'s': {1, 2}}, b'bytes', 1 + 2j]


class Unpicklable:
    def __reduce__(self):
        raise TypeError('cannot pickle me')


def gen_sequence(rng):
    style = rng.random()
    tags = set()
    if style < 0.55:
        ids = rng.sample(SAFE_IDS, rng.randint(2, 5))
    elif style < 0.75:
        ids = rng.sample(DOT_IDS, rng.randint(2, 5))
    elif style < 0.9:
        ids = rng.sample(GLOB_IDS, rng.randint(2, 5))
    else:
        ids = rng.sample(HIDDEN_IDS, rng.randint(2, 5))
    use_json = rng.random() < 0.4
    use_fail = rng.random() < 0.25
    ctxs = [(rng.choice(['m1', 'm2']), rng.choice(['p1', 'p2', 'p-3'])) for _ in range(rng.randint(1, 3))]
    ops = []
    for _ in range(rng.randint(4, 25)):
        c = rng.randrange(len(ctxs))
        i = rng.choice(ids)
        if rng.random() < 0.5:
            fmt = 'json' if (use_json and rng.random() < 0.5) else 'pickle'
            if use_fail and rng.random() < 0.3:
                # unserialisable as a whole, or only after a serialisable prefix has already been written
                v = rng.choice(['__UNSERIALISABLE__', '__PARTLY_SERIALISABLE__'])
            elif fmt == 'pickle' and rng.random() < 0.3:
                v = rng.randrange(len(PICKLE_ONLY))
                v = ['__PICKLE_ONLY__', v]
            else:
                v = rng.choice(VALUES)
            ops.append(['save', c, i, fmt, v])
        else:
            ops.append(['load', c, i])
    return {'ctxs': [list(c) for c in ctxs], 'ops': ops}


def seq_tags(seq):
    tags = set()
    ids = {op[2] for op in seq['ops']}
    for op in seq['ops']:
        if op[0] == 'save' and op[3] == 'json':
            tags.add('fs_json')
        if op[0] == 'save' and op[4] in ('__UNSERIALISABLE__', '__PARTLY_SERIALISABLE__'):
            tags.add('fs_failed_save')
    for a in ids:
        for b in ids:
            if a != b and b.startswith(a + '.'):
                tags.add('fs_prefix_ids')
    if any(ch in i for i in ids for ch in '*?['):
        tags.add('fs_glob_ids')
    if any(i.endswith(('.pickle', '.json')) for i in ids):
        tags.add('fs_prefix_ids')
    return sorted(tags)


class PartlyUnser(list):
    """Marker type of a value whose serialisation fails half way (a big serialisable prefix, then an unserialisable item)."""


def realise(v):
    if v == '__UNSERIALISABLE__':
        return Unpicklable()
    if v == '__PARTLY_SERIALISABLE__':
        return PartlyUnser([list(range(3000)), 'x' * 200000, Unpicklable()])
    if isinstance(v, list) and len(v) == 2 and v[0] == '__PICKLE_ONLY__':
        return PICKLE_ONLY[v[1]]
    return v


def run_sequence(seq, workdir):
    harness.setup_engine()
    from ml_pipeline_engine.artifact_store.enums import DataFormat
    from ml_pipeline_engine.artifact_store.errors import ArtifactAlreadyExists, ArtifactDoesNotExist
    from ml_pipeline_engine.artifact_store.store.filesystem import FileSystemArtifactStore
    fs = []
    model = {}
    stores = []
    for mname, pid in seq['ctxs']:
        ctx = types.SimpleNamespace(model_name=mname, pipeline_id=pid)
        stores.append(FileSystemArtifactStore(ctx, workdir))
    nops = 0

    async def go():
        nonlocal nops
        for n, op in enumerate(seq['ops']):
            nops += 1
            kind, c, nid = op[0], op[1], op[2]
            key = (tuple(seq['ctxs'][c]), nid)
            st = stores[c]
            if kind == 'save':
                fmt = DataFormat(op[3])
                val = realise(op[4])
                unser = isinstance(val, (Unpicklable, PartlyUnser))
                try:
                    await st.save(nid, val, fmt=fmt)
                except ArtifactAlreadyExists:
                    if key not in model:
                        fs.append(F(['C18'], 'save_rejected_for_unsaved_key', op=n, key=list(map(str, key)),
                                    saved=[str(k) for k in model]))
                except Exception as e:  # noqa: BLE001
                    if key in model:
                        fs.append(F(['C18'], 'second_save_wrong_error', op=n, err=repr(e)[:120]))
                    elif not unser:
                        fs.append(F(['C18'], 'save_failed_for_valid_value', op=n, fmt=op[3], err=repr(e)[:160],
                                    value=repr(val)[:60]))
                else:
                    if key in model:
                        fs.append(F(['C18'], 'second_save_not_rejected', op=n, key=list(map(str, key))))
                    elif unser:
                        fs.append(F(['C18'], 'unserialisable_value_saved', op=n))
                    else:
                        model[key] = val
            else:
                try:
                    got = await st.load(nid)
                except ArtifactDoesNotExist:
                    if key in model:
                        fs.append(F(['C18'], 'saved_key_not_loadable', op=n, key=list(map(str, key))))
                except Exception as e:  # noqa: BLE001
                    fs.append(F(['C18'], 'load_raised_unexpected', op=n, err=repr(e)[:160],
                                key=list(map(str, key)), saved=key in model))
                else:
                    if key not in model:
                        fs.append(F(['C18'], 'load_of_unsaved_key_returned', op=n, key=list(map(str, key)),
                                    got=repr(got)[:80], saved=[str(k) for k in model][:6]))
                    elif got != model[key] or type(got) is not type(model[key]):
                        fs.append(F(['C18'], 'load_wrong_value', op=n, got=repr(got)[:80], exp=repr(model[key])[:80]))
        # final sweep: every saved key loadable with its value, in every context
        for key, val in model.items():
            c = [tuple(x) for x in seq['ctxs']].index(key[0])
            try:
                got = await stores[c].load(key[1])
                if got != val:
                    fs.append(F(['C18'], 'final_load_wrong_value', key=list(map(str, key)), got=repr(got)[:80],
                                exp=repr(val)[:80]))
            except Exception as e:  # noqa: BLE001
                fs.append(F(['C18'], 'final_load_failed', key=list(map(str, key)), err=repr(e)[:120]))

    with warnings.catch_warnings():
        warnings.simplefilter('ignore')
        asyncio.run(go())
    return fs, nops


def replay_case(case):
    wd = os.path.join(VERIF, '.work', f'fsr-{os.getpid()}')
    shutil.rmtree(wd, ignore_errors=True)
    os.makedirs(wd)
    try:
        fs, _ = run_sequence(case['seq'], wd)
    finally:
        shutil.rmtree(wd, ignore_errors=True)
    return fs


def work_c18(prop, tier, seed, widx, nworkers):
    rng = random.Random(f'{prop}-{seed}-{widx}')
    nseq = 200 if tier == 'quick' else 4000
    acc = Acc(prop)
    base = os.path.join(VERIF, '.work', f'fs-{os.getpid()}')
    try:
        for i in range(nseq):
            seq = gen_sequence(rng)
            tags = seq_tags(seq)
            wd = os.path.join(base, str(i))
            os.makedirs(wd)
            fs, nops = run_sequence(seq, wd)
            shutil.rmtree(wd, ignore_errors=True)
            acc.evaluations += 1
            acc.programs += 1
            acc.counters['operations'] = acc.counters.get('operations', 0) + nops
            key = ','.join(tags) or '-'
            acc.tagcount[key] = acc.tagcount.get(key, 0) + 1
            if len(seq['ops']) >= 6:
                acc.nontrivial.add(hash(repr(seq)) & 0xFFFFFFFFFFFF)
            case = {'seq': seq, 'what': 'c18'}
            for f in fs:
                if len(acc.findings) < 60:
                    acc.findings.append({'kind': f['kind'], 'detail': f['detail'], 'prop': f['prop'], 'tags': tags,
                                         'case': case})
            if len(acc.samples) < 1:
                acc.samples.append({'sequence': seq, 'tags': tags})
    finally:
        shutil.rmtree(base, ignore_errors=True)
    return acc.result()


RULES['C18'] = ('random sequences of 4-25 save/load operations over 1-3 contexts (model name, pipeline id) sharing one real '
                'directory, ids drawn from three alphabets (plain incl. unicode / long / spaces; dotted ids that are prefixes '
                'of one another or end in .pickle/.json; glob metacharacters), both formats, JSON-representable and '
                'pickle-only values, unserialisable values (failed saves); after every operation the result / exception class '
                'is compared with a dict model and at the end every saved key must load its value. Non-trivial: >= 6 '
                'operations; distinct by sequence.')
