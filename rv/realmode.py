"""C17: execution mode is transparent (real SelectorEventLoop, real thread / process pools with their
uncontrolled timing) and a missing / shut-down pool fails fast.

Each worker is a fresh interpreter: it registers real pools, materialises all program variants
*before* the process pool forks its workers, then runs them.  Registry states other than "both
registered" are exercised in one fresh subprocess per state."""
from __future__ import annotations

import ast
import asyncio
import copy
import json
import logging
import os
import random
import subprocess
import sys
import tempfile
import time
import warnings

from rv import gen, materialize, refsem, rt
from rv.monitors import F
from rv.props import Acc

RULES = {}
MODE_OF = {}
VERIF = os.path.dirname(os.path.dirname(os.path.abspath(__file__)))
REPO = os.environ.get('VERIF_REPO', '/repo')


def real_profile():
    # nested recurrent destinations count attempts per process: not meaningful across pool workers
    return gen.profile(n_max=8, p_fail=0.15, p_retry=0.2, p_rec_nested=0.0, p_falsy_ad=0.0, p_generic=0.15,
                       p_nested_exhaust_shape=0.0)


def simplify_for_real(prog):
    """Per-attempt failure plans need a shared attempt counter; real pools get ALWAYS-plans only."""
    p = copy.deepcopy(prog)
    for n in p['nodes'].values():
        f = (n.get('plan') or {}).get('fail')
        if f and f[0] != 'ALWAYS':
            n['plan']['fail'] = ['ALWAYS', f[0] or 'E1']
        f = (n.get('plan') or {}).get('fail')
        if f and f[1] == 'EFalsy':
            # concurrent.futures.process delivers a falsy exception instance as a None *result*
            # (`if result_item.exception:` in CPython) - not the engine's concern
            n['plan']['fail'] = ['ALWAYS', 'EOther']
        r = n.get('retry')
        if r and r.get('delay'):
            r['delay'] = 0.001
    return p


def assign_modes(prog, rng, how):
    p = copy.deepcopy(prog)
    for n in p['nodes'].values():
        if n.get('generic_base'):
            continue
        if how == 'random':
            n['mode'] = rng.choice(gen.ALL_MODES)
        else:
            n['mode'] = how
        if str(n.get('tag_style', '')).startswith('coro_'):
            n.pop('tag_style')
        if n['mode'] == 'async_tagged' and rng.random() < 0.6:
            n['tag_style'] = rng.choice(['coro_thread', 'coro_process'])     # a coroutine that carries a pool tag
    for n in p['nodes'].values():
        if n.get('generic_of'):
            p['nodes'][n['generic_of']]['mode'] = n['mode']     # the mode lives on the generic base class
    return p


def outcome_class(res, exc):
    if exc is not None:
        return ('raised', type(exc).__name__)
    if res.error is not None:
        e = res.error
        if isinstance(e, (rt.Boom, rt.Fatal)):
            return ('error', 'boom', e.node)
        return ('error', type(e).__name__, repr(e.args)[:120])
    return ('value', res.value)


def judge(ref, oc):
    exp = ref.outcome
    if exp[0] == 'value':
        if oc[0] != 'value':
            return F(['C17', 'C01'], 'error_instead_of_value', got=repr(oc)[:200])
        if oc[1] != exp[1]:
            return F(['C17', 'C01'], 'wrong_value', got=repr(oc[1])[:200], exp=repr(exp[1])[:200])
        return None
    if oc[0] == 'value':
        return F(['C17', 'C01'], 'value_instead_of_error', got=repr(oc[1])[:200])
    causes = exp[1]
    if oc[0] == 'error':
        if oc[1] == 'boom':
            if any(c[0] in ('boom', 'fatal') and c[1] == oc[2] for c in causes):
                return None
            return F(['C17', 'C05'], 'wrong_error', got=repr(oc), causes=repr(sorted(causes))[:200])
        if oc[1] == 'OneOfDoesNotHaveResultError' and any(c[0] == 'oneof' for c in causes):
            return None
        if oc[1] == 'RecurrentSubgraphDoesNotHaveResultError' and any(c[0] == 'rec' for c in causes):
            return None
        if any(c[0] == 'badlabel' for c in causes):
            return None
        return F(['C17', 'C05'], 'wrong_error', got=repr(oc)[:200], causes=repr(sorted(causes))[:200])
    return F(['C17', 'C05'], 'run_raised', got=repr(oc))


def work_c17(prop, tier, seed, widx, nworkers):
    logging.disable(logging.CRITICAL)
    warnings.simplefilter('ignore')
    rng = random.Random(f'{prop}-{seed}-{widx}')
    acc = Acc(prop)
    nprog = 10 if tier == 'quick' else 120
    from ml_pipeline_engine.chart import PipelineChart
    from ml_pipeline_engine.dag_builders.annotation import build_dag
    from ml_pipeline_engine.parallelism import process_pool_registry, threads_pool_registry
    # 1. programs and variants, materialised before any pool exists
    items = []
    for i in range(nprog):
        base = simplify_for_real(gen.gen_program(rng, real_profile()))
        for _try in range(20):
            # families with a known hang (KF-REC2) only cost wall-clock watchdog time on a real loop;
            # they are judged on the virtual loop, where a hang is decided exactly
            if not set(base.get('tags', [])) & {'rec_two_scopes_static', 'rec_outside_consumer'}:
                break
            base = simplify_for_real(gen.gen_program(rng, real_profile()))
        variants = [assign_modes(base, rng, how) for how in ('async', 'thread', 'inline', 'process', 'random', 'random', 'thread_tag', 'custom_tag')]
        mods = [materialize.load(v) for v in variants]
        for v, md in zip(variants, mods):
            for nid, nd in v['nodes'].items():
                MODE_OF[(md.__name__, nid)] = nd['mode']
        items.append((base, variants, mods))
    threads_pool_registry.auto_init()
    process_pool_registry.auto_init()
    tf = tempfile.NamedTemporaryFile(prefix='rvreal', suffix='.log', dir=os.path.join(VERIF, '.work'), delete=False)
    tf.close()
    fd = os.open(tf.name, os.O_WRONLY | os.O_APPEND)
    rt.REAL['fd'] = fd
    loop = asyncio.new_event_loop()
    asyncio.set_event_loop(loop)
    try:
        for base, variants, mods in items:
            acc.programs += 1
            key = ','.join(base.get('tags', [])) or '-'
            acc.tagcount[key] = acc.tagcount.get(key, 0) + 1
            for val in rng.sample([0, 1, 2, 3], 2):
                ref = refsem.evaluate(base, 'r0', val)
                classes = {}
                timed_out = False
                for vi, (v, mod) in enumerate(zip(variants, mods)):
                    try:
                        dag = build_dag(input_node=getattr(mod, v['input']), output_node=getattr(mod, v['output']))
                    except Exception as e:  # noqa: BLE001
                        acc.findings.append({'kind': 'valid_program_rejected', 'detail': {'err': repr(e)[:200]},
                                             'prop': ['C17', 'C16'], 'tags': base.get('tags', []), 'case': None})
                        break
                    chart = PipelineChart('rv', dag)
                    rt.REAL['run'] = 'r0'
                    exc = res = None
                    t0 = time.time()
                    try:
                        res = loop.run_until_complete(asyncio.wait_for(
                            chart.run(pipeline_id='r0', input_kwargs=dict({'x': ('IN', 'r0', val)}, **(v.get('extra_inputs') or {}))), timeout=20))
                    except asyncio.TimeoutError:
                        # wall-clock watchdog: inconclusive for this run (never a verdict); skip the program
                        acc.counters['watchdog_timeouts'] = acc.counters.get('watchdog_timeouts', 0) + 1
                        acc.samples.append({'watchdog_timeout': True, 'tags': sorted(set(base.get('tags', [])) | ref.dyn),
                                            'modes': {n: v['nodes'][n]['mode'] for n in v['order']}, 'val': val})
                        timed_out = True
                        break
                    except BaseException as e:  # noqa: BLE001
                        exc = e
                    acc.evaluations += 1
                    acc.counters['real_runs'] = acc.counters.get('real_runs', 0) + 1
                    oc = outcome_class(res, exc)
                    classes[vi] = oc
                    f = judge(ref, oc)
                    modes = {n: v['nodes'][n]['mode'] for n in v['order']}
                    case = {'prog': v, 'val': val, 'what': 'real'}
                    if len(set(modes.values())) > 1 or vi < 4:
                        acc.nontrivial.add(hash((materialize.prog_hash(v), val)) & 0xFFFFFFFFFFFF)
                    if f is not None:
                        acc.findings.append({'kind': f['kind'], 'detail': dict(f['detail'], modes=modes), 'prop': f['prop'],
                                             'tags': sorted(set(base.get('tags', [])) | ref.dyn), 'case': case})
                    if len(acc.samples) < 1 and vi == 4:
                        acc.samples.append({'modes': modes, 'val': val, 'outcome': repr(oc)[:200],
                                            'expected': repr(ref.outcome)[:200], 'tags': base.get('tags', [])})
                if timed_out:
                    break
                kinds = {c[0] for c in classes.values()}
                vals = {repr(c[1]) for c in classes.values() if c[0] == 'value'}
                if len(kinds) > 1 or len(vals) > 1:
                    acc.findings.append({'kind': 'mode_dependent_outcome',
                                         'detail': {'classes': {str(k): repr(c)[:120] for k, c in classes.items()}},
                                         'prop': ['C17'], 'tags': sorted(set(base.get('tags', [])) | ref.dyn),
                                         'case': {'prog': base, 'val': val, 'what': 'real_all'}})
    finally:
        loop.close()
        os.close(fd)
        rt.REAL['fd'] = None
    # 2. trace sanity: events arrived from more than one process (process pool really used)
    pids = set()
    nrec = 0
    reused = 0
    wrong_thread = 0
    not_factory = 0
    main_pid = os.getpid()
    with open(tf.name) as fh:
        for line in fh:
            nrec += 1
            try:
                rec = ast.literal_eval(line)
            except Exception:  # noqa: BLE001
                continue
            pids.add(rec['pid'])
            if rec['k'] == 'body_start':
                if rec.get('inst_uses'):
                    reused += 1
                if rec.get('factory') is False:
                    not_factory += 1
                mode = MODE_OF.get((rec.get('mod'), rec['node']))
                if mode in ('thread', 'thread_tag', 'custom_tag') and (rec['pid'] != main_pid or rec['main_thread']):
                    wrong_thread += 1
                if mode == 'process' and rec['pid'] == main_pid:
                    wrong_thread += 1
                if mode in ('async', 'async_tagged', 'inline') and (rec['pid'] != main_pid or not rec['main_thread']):
                    wrong_thread += 1
    if reused:
        acc.findings.append({'kind': 'node_instance_reused', 'detail': {'invocations_on_reused_objects': reused},
                             'prop': ['C17', 'C08'], 'tags': [], 'case': None})
    if not_factory:
        acc.findings.append({'kind': 'node_object_not_from_default_factory', 'detail': {'invocations': not_factory},
                             'prop': ['C17'], 'tags': [], 'case': None})
    if wrong_thread:
        acc.findings.append({'kind': 'wrong_dispatch', 'detail': {'bodies_in_wrong_thread_or_process': wrong_thread},
                             'prop': ['C17'], 'tags': [], 'case': None})
    acc.counters['dispatch_checked'] = nrec
    os.unlink(tf.name)
    acc.counters['trace_records'] = nrec
    acc.counters['distinct_pids_with_bodies'] = len(pids)
    threads_pool_registry.shutdown()
    process_pool_registry.shutdown()
    # 3. registry states (only worker 0..k-1 take one state each, round robin)
    states = registry_states()
    for si, stt in enumerate(states):
        if si % nworkers != widx:
            continue
        fs, info = run_state(stt)
        acc.evaluations += 1
        acc.counters['registry_states'] = acc.counters.get('registry_states', 0) + 1
        acc.nontrivial.add(hash(repr(stt)) & 0xFFFFFFFFFFFF)
        for f in fs:
            acc.findings.append({'kind': f['kind'], 'detail': f['detail'], 'prop': f['prop'], 'tags': [],
                                 'case': {'state': stt, 'what': 'state'}})
        if info.get('inconclusive'):
            acc.counters['watchdog_timeouts'] = acc.counters.get('watchdog_timeouts', 0) + 1
    return acc.result()


def registry_states():
    out = []
    for th in ('none', 'ok', 'shutdown'):
        for pr in ('none', 'ok', 'shutdown', 'no_manager'):
            for need in ('thread', 'process', 'both', 'async_only', 'inline_only'):
                out.append({'thread': th, 'process': pr, 'need': need})
    # histories on one chart: a first run with both pools alive, then a pool is shut down and the SAME chart runs again
    for need in ('thread', 'process', 'both', 'async_only'):
        for shut in ('thread', 'process'):
            out.append({'thread': 'ok', 'process': 'ok', 'need': need, 'then_shutdown': shut})
    # other spellings of the same declarations: tags as plain strings; the execution mode set on a build_node()
    # derivative through attrs={'tags': ...} while the generic base class is an ordinary thread node
    # no sync node at all, one coroutine node falls back to get_default(): no pool is needed, whatever the registries hold
    for th in ('none', 'ok'):
        out.append({'thread': th, 'process': 'none', 'need': 'async_only', 'variant': 'async_default'})
    for variant in ('str_tags', 'generic_attrs'):
        for th in ('none', 'ok'):
            for pr in ('none', 'ok'):
                for need in ('process', 'both'):
                    out.append({'thread': th, 'process': pr, 'need': need, 'variant': variant})
    # a non_async (in-place) node declared before / after the nodes that need a pool: it needs none itself and must not
    # hide the others from the builder's pool analysis
    for variant in ('inline_first', 'inline_last'):
        for th, pr in (('none', 'none'), ('ok', 'none'), ('none', 'ok'), ('ok', 'ok')):
            for need in ('thread', 'process', 'both'):
                out.append({'thread': th, 'process': pr, 'need': need, 'variant': variant})
    return out


def run_state(stt):
    env = dict(os.environ)
    env['PYTHONPATH'] = VERIF + os.pathsep + REPO
    try:
        out = subprocess.run([sys.executable, '-m', 'rv.realmode', '--state', json.dumps(stt)], env=env, cwd=VERIF,
                             capture_output=True, timeout=120)
    except subprocess.TimeoutExpired:
        return [], {'inconclusive': True}
    try:
        r = json.loads(out.stdout.decode().strip().splitlines()[-1])
    except Exception:  # noqa: BLE001
        return [F(['C17'], 'state_probe_crashed', state=stt, err=out.stderr.decode()[-400:])], {}
    fs = []
    need_t = stt['need'] in ('thread', 'both')
    need_p = stt['need'] in ('process', 'both')
    ok = (not need_t or stt['thread'] == 'ok') and (not need_p or stt['process'] == 'ok')
    if stt.get('then_shutdown'):
        if r.get('first') != 'value':
            fs.append(F(['C17'], 'run_failed_with_pools_available', state=stt, got=r))
        ok = not ((stt['then_shutdown'] == 'thread' and need_t) or (stt['then_shutdown'] == 'process' and need_p))
    if ok:
        if r['outcome'] != 'value':
            fs.append(F(['C17'], 'run_failed_with_pools_available', state=stt, got=r))
    else:
        if r['outcome'] != 'error':
            fs.append(F(['C17'], 'missing_pool_not_an_error_result', state=stt, got=r))
        if r['bodies'] > 0:
            fs.append(F(['C17'], 'node_body_ran_without_pool', state=stt, got=r))
        if r['elapsed'] > 30:
            fs.append(F(['C17'], 'missing_pool_slow_failure', state=stt, got=r))
    return fs, {}


def state_main(stt):
    """Runs in a fresh interpreter: put the registries in the requested state, run a small DAG."""
    logging.disable(logging.CRITICAL)
    warnings.simplefilter('ignore')
    from concurrent.futures import ProcessPoolExecutor, ThreadPoolExecutor
    from multiprocessing import Manager, get_context
    from ml_pipeline_engine.chart import PipelineChart
    from ml_pipeline_engine.dag_builders.annotation import build_dag
    from ml_pipeline_engine.parallelism import process_pool_registry, threads_pool_registry

    def N(i, mode, deps):
        return {'id': i, 'mode': mode, 'params': [['abc'[k], ['in', d]] for k, d in enumerate(deps)],
                'kind': 'plain', 'plan': {}}
    need = stt['need']
    m1 = {'thread': 'thread', 'process': 'process', 'both': 'thread', 'async_only': 'async', 'inline_only': 'inline'}[need]
    m2 = {'thread': 'thread', 'process': 'process', 'both': 'process', 'async_only': 'async', 'inline_only': 'inline'}[need]
    nodes = {'N0': dict(N('N0', 'async', []), plain_params=['x']), 'N1': N('N1', m1, ['N0']),
             'N2': N('N2', m2, ['N0']), 'N3': N('N3', 'async', ['N1', 'N2'])}
    prog = {'nodes': nodes, 'order': ['N0', 'N1', 'N2', 'N3'], 'input': 'N0', 'output': 'N3'}
    if stt.get('variant') in ('inline_first', 'inline_last'):
        nodes['N4'] = N('N4', 'inline', ['N0'])
        deps = ['N4', 'N1', 'N2'] if stt['variant'] == 'inline_first' else ['N1', 'N2', 'N4']
        nodes['N3'] = N('N3', 'inline' if stt['variant'] == 'inline_first' else 'async', deps)
        prog['order'] = ['N0', 'N1', 'N2', 'N4', 'N3']
    if stt.get('variant') == 'async_default':
        nodes['N1']['plan'] = {'fail': ['ALWAYS', 'E1']}
        nodes['N1']['retry'] = {'use_default': True}
    if stt.get('variant') == 'str_tags':
        nodes['N1']['tag_style'] = nodes['N2']['tag_style'] = 'str'
    elif stt.get('variant') == 'generic_attrs':
        # N2 = build_node(G2, attrs={'tags': (NodeTag.process,)}); G2 itself is a plain thread node
        base = dict(copy.deepcopy(nodes['N2']), id='G2', generic_base=True, attrs_tags_base=True, nm=['custom', 'base_N2'])
        nodes['G2'] = base
        nodes['N2'].update(generic_of='G2', attrs_tags=True)
        prog['order'] = ['N0', 'N1', 'G2', 'N2', 'N3']
    mod = materialize.load(prog)
    tf = tempfile.NamedTemporaryFile(prefix='rvstate', suffix='.log', dir=os.path.join(VERIF, '.work'), delete=False)
    tf.close()
    fd = os.open(tf.name, os.O_WRONLY | os.O_APPEND)
    rt.REAL['fd'] = fd
    rt.REAL['run'] = 'r0'
    if stt['thread'] in ('ok', 'shutdown'):
        ex = ThreadPoolExecutor(max_workers=2)
        threads_pool_registry.register_pool_executor(ex)
        if stt['thread'] == 'shutdown':
            ex.shutdown()
    mgr = None
    if stt['process'] in ('ok', 'shutdown', 'no_manager'):
        pex = ProcessPoolExecutor(max_workers=2, mp_context=get_context('fork'))
        process_pool_registry.register_pool_executor(pex)
        if stt['process'] != 'no_manager':
            mgr = Manager()
            process_pool_registry.register_manager(mgr)
        if stt['process'] == 'shutdown':
            pex.shutdown()
    dag = build_dag(input_node=mod.N0, output_node=mod.N3)
    chart = PipelineChart('rv', dag)
    out = {'outcome': None, 'err': None}
    if stt.get('then_shutdown'):
        try:
            res1 = asyncio.run(asyncio.wait_for(chart.run(pipeline_id='r0', input_kwargs={'x': ('IN', 'r0', 0)}), 60))
            out['first'] = 'error' if res1.error is not None else 'value'
        except BaseException as e:  # noqa: BLE001
            out['first'] = 'raised:' + repr(e)[:100]
        (ex if stt['then_shutdown'] == 'thread' else pex).shutdown()
        os.close(fd)
        os.unlink(tf.name)
        tf = tempfile.NamedTemporaryFile(prefix='rvstate', suffix='.log', dir=os.path.join(VERIF, '.work'), delete=False)
        tf.close()
        fd = os.open(tf.name, os.O_WRONLY | os.O_APPEND)
        rt.REAL['fd'] = fd
    t0 = time.time()
    try:
        res = asyncio.run(asyncio.wait_for(chart.run(pipeline_id='r0', input_kwargs={'x': ('IN', 'r0', 0)}), 60))
        out['outcome'] = 'error' if res.error is not None else 'value'
        out['err'] = repr(res.error)[:200] if res.error is not None else None
    except BaseException as e:  # noqa: BLE001
        out['outcome'] = 'raised'
        out['err'] = repr(e)[:200]
    out['elapsed'] = time.time() - t0
    os.close(fd)
    with open(tf.name) as fh:
        out['bodies'] = sum(1 for line in fh if "'body_start'" in line)
    os.unlink(tf.name)
    print(json.dumps(out))
    sys.stdout.flush()
    try:
        threads_pool_registry.shutdown()
        process_pool_registry.shutdown()
    except Exception:  # noqa: BLE001
        pass
    os._exit(0)


def replay_case(case):
    what = case.get('what')
    if what == 'state':
        return run_state(case['state'])[0]
    # real-mode program replay: run the variant a few times in this process
    logging.disable(logging.CRITICAL)
    from ml_pipeline_engine.chart import PipelineChart
    from ml_pipeline_engine.dag_builders.annotation import build_dag
    from ml_pipeline_engine.parallelism import process_pool_registry, threads_pool_registry
    prog = case['prog']
    mod = materialize.load(prog)
    threads_pool_registry.auto_init()
    process_pool_registry.auto_init()
    tf = tempfile.NamedTemporaryFile(prefix='rvreal', suffix='.log', dir=os.path.join(VERIF, '.work'), delete=False)
    tf.close()
    fd = os.open(tf.name, os.O_WRONLY | os.O_APPEND)
    rt.REAL['fd'] = fd
    rt.REAL['run'] = 'r0'
    fs = []
    ref = refsem.evaluate(prog, 'r0', case['val'])
    for _ in range(5):
        dag = build_dag(input_node=getattr(mod, prog['input']), output_node=getattr(mod, prog['output']))
        chart = PipelineChart('rv', dag)
        exc = res = None
        try:
            res = asyncio.run(asyncio.wait_for(chart.run(pipeline_id='r0', input_kwargs=dict({'x': ('IN', 'r0', case['val'])}, **(prog.get('extra_inputs') or {}))), 60))
        except BaseException as e:  # noqa: BLE001
            exc = e
        f = judge(ref, outcome_class(res, exc))
        if f:
            fs.append(f)
    os.close(fd)
    os.unlink(tf.name)
    threads_pool_registry.shutdown()
    process_pool_registry.shutdown()
    return fs


RULES['C17'] = ('grammar programs (failing nodes use always-fail plans) materialised under 6 execution-mode assignments '
                '(all async, all thread, all inline, all process, two random mixes) and run on a real SelectorEventLoop with a '
                'real ThreadPoolExecutor and a real fork ProcessPoolExecutor, bodies jittered by 0-2 ms; every outcome is '
                'compared with the mode-free reference and across assignments; 48 registry states {thread: none/ok/shutdown} x '
                '{process: none/ok/shutdown/no manager} x {DAG needs thread/process/both/neither}, each in a fresh interpreter, '
                'must give an error result with zero recorded body invocations when a needed pool is not ready and a value '
                'otherwise. Non-trivial: run under a mixed or uniform non-default assignment; distinct by (variant, input) / state.')
NWORKERS = {'C17': 12}


if __name__ == '__main__':
    if sys.argv[1] == '--state':
        state_main(json.loads(sys.argv[2]))
