"""Scripted replay of a *virtual* case on a REAL asyncio event loop (SelectorEventLoop, real time,
real ThreadPoolExecutor), used to cross-check that a virtual verdict corresponds to real behaviour
(DESIGN 3.8).

The virtual schedule log is reduced to the order in which external completions were delivered.  Every
gate of the virtual run (async body, executor job, suspending callback / save) becomes a real
asyncio.Event / threading.Event; a controller task releases them in the recorded order, each one
only after it has been reached and the loop had a few milliseconds to settle.  Timers run in real
time.  The outcome is judged by the same monitors (outcome, invocations, termination by a wall-clock
bound - a timeout here is reported as 'hang_on_real_loop').

usage: python -m rv.realreplay <case-or-witness.json> [...]
"""
from __future__ import annotations

import asyncio
import concurrent.futures as cf
import json
import logging
import random
import sys
import threading
import time
import warnings

from rv import cases, materialize, monitors, refsem, rt, vloop
from rv.harness import REPO  # noqa: F401  (sets sys.path for the engine)


class RealGates:
    def __init__(self, loop):
        self.loop = loop
        self.pending = {}       # key -> release()
        self.counts = {}
        self.lock = threading.Lock()
        self.seen = []

    def key(self, base):
        with self.lock:
            n = self.counts.get(base, 0)
            self.counts[base] = n + 1
        return tuple(base) + (n,)

    def add_async(self, base):
        k = self.key(tuple(base))
        ev = asyncio.Event()
        self.pending[k] = ev.set
        self.seen.append(k)
        return k, ev

    def add_thread(self, base):
        k = self.key(tuple(base))
        ev = threading.Event()
        self.pending[k] = ev.set
        self.seen.append(k)
        return k, ev

    def release(self, k):
        f = self.pending.pop(k, None)
        if f is not None:
            f()
            return True
        return False


GATES: RealGates = None     # type: ignore


class _Session(rt.Session):
    """rt.Session whose gates are real events (the loop attribute is a real loop)."""

    def ev(self, kind, run, node, **data):
        rec = {'k': kind, 'run': run, 'node': node, 'step': -1, 'vt': self.loop.time() - self.t0}
        rec.update(data)
        with self.tlock:
            self.trace.append(rec)


async def _gate(key):
    k, ev = GATES.add_async(key)
    await ev.wait()


def _patch_rt(sess, prog):
    """Route gating of generated bodies through real events."""
    async def gate(key):
        await _gate(key)

    def body(inst, nid, kwargs):
        s, node, run, attempt = rt._begin(nid, kwargs, None)
        pool = 'process' if node.get('mode') == 'process' else 'thread'
        if node.get('mode') not in ('inline',):
            k, ev = GATES.add_thread(('exec', pool, run, nid))
            ev.wait(timeout=30)
        return rt._finish(s, node, run, attempt, kwargs, inst)
    rt.gate = gate
    rt.body = body


def replay(case, timeout=8.0):
    logging.disable(logging.CRITICAL)
    warnings.simplefilter('ignore')
    from ml_pipeline_engine.chart import PipelineChart
    from ml_pipeline_engine.dag_builders.annotation import build_dag
    from ml_pipeline_engine.parallelism import process_pool_registry, threads_pool_registry
    global GATES
    prog = case['prog']
    # 1. the virtual run gives the completion order (and must be deterministic)
    vres = cases.run_case(case, keep_obs=True)
    # completions delivered in one loop iteration of the virtual run are delivered together here as well
    order = [[k for k in acts if k != 'TIMER'] for _, acts in vres['obs'].sched]
    order = [g for g in order if g]
    vkinds = sorted({f['kind'] for f in vres['findings']})
    # 2. real run
    mod = materialize.load(prog)
    virt_pools = (threads_pool_registry._pool_executor, process_pool_registry._pool_executor)
    if not getattr(replay, '_pools', None):
        tp, pp = cf.ThreadPoolExecutor(max_workers=16), cf.ThreadPoolExecutor(max_workers=16)
        pp._shutdown_thread = False
        replay._pools = (tp, pp)
    threads_pool_registry._pool_executor, process_pool_registry._pool_executor = replay._pools
    loop = asyncio.new_event_loop()
    asyncio.set_event_loop(loop)
    GATES = RealGates(loop)
    ctl = cases.ctl_from(case.get('ctl'))
    sess = _Session(prog, loop=loop, gate_events=case.get('gate_events', 0.0), gate_saves=case.get('gate_saves', 0.0),
                    rng=random.Random(ctl.rng.random()),
                    collab_faults={(c, k): True for c, k in case.get('collab_faults', [])})
    sess.write_once = case.get('write_once', True)
    sess.t0 = loop.time()
    sess.tlock = threading.Lock()
    sess.real = False
    rt.set_session(sess)
    saved = (rt.gate, rt.body)
    _patch_rt(sess, prog)
    from rv import harness
    st_cls = rt.make_store_class()
    dag = build_dag(input_node=getattr(mod, prog['input']), output_node=getattr(mod, prog['output']))
    chart = PipelineChart('rv', dag, event_managers=[rt.RecordingEvents] if case.get('events', True) else [],
                          artifact_store=st_cls if case.get('store') else None)
    runs = [tuple(r) for r in case['runs']]
    ros = [harness.RunObs(t, v) for t, v in runs]
    out = {'virtual_kinds': vkinds}

    async def one(ro):
        rt.RUN.set(ro.tag)
        kw = {'x': ('IN', ro.tag, ro.val)}
        kw.update(prog.get('extra_inputs') or {})
        try:
            res = await chart.run(pipeline_id=ro.tag, input_kwargs=kw)
        except BaseException as e:  # noqa: BLE001
            ro.outcome, ro.raised = 'raised', e
            if isinstance(e, asyncio.CancelledError):
                raise
            return
        ro.result = res
        if res.error is not None:
            ro.outcome, ro.error = 'error', res.error
        else:
            ro.outcome, ro.value = 'value', res.value

    async def controller(tasks):
        i = 0
        idle_since = None
        t_end = loop.time() + timeout
        while loop.time() < t_end and not all(t.done() for t in tasks):
            progressed = False
            if i < len(order):
                grp = order[i]
                if all(k in GATES.pending for k in grp):
                    await asyncio.sleep(0.004)
                    for k in grp:
                        GATES.release(k)
                    i += 1
                    progressed = True
                elif idle_since is not None and loop.time() - idle_since > 0.5:
                    for k in grp:       # some completion does not exist in the real run (schedules diverged)
                        GATES.release(k)
                    i += 1
                    progressed = True
            elif GATES.pending:
                await asyncio.sleep(0.004)
                GATES.release(next(iter(GATES.pending)))
                progressed = True
            if progressed:
                idle_since = None
            else:
                idle_since = idle_since or loop.time()
                await asyncio.sleep(0.002)
        return all(t.done() for t in tasks)

    async def main():
        tasks = [asyncio.ensure_future(one(ro)) for ro in ros]
        done = await controller(tasks)
        if not done:
            for t in tasks:
                t.cancel()
        for k in list(GATES.pending):
            GATES.release(k)
        await asyncio.sleep(0.02)
        return done

    try:
        done = loop.run_until_complete(main())
    finally:
        rt.gate, rt.body = saved
        pend = [t for t in asyncio.all_tasks(loop) if not t.done()]
        for t in pend:
            t.cancel()
        try:
            loop.run_until_complete(asyncio.sleep(0.02))
        except BaseException:  # noqa: BLE001
            pass
        loop.close()
        asyncio.set_event_loop(None)
        rt.set_session(None)
        materialize.unload(mod)
        threads_pool_registry._pool_executor, process_pool_registry._pool_executor = virt_pools

    class _Obs:
        pass
    obs = _Obs()
    obs.trace = sess.trace
    obs.session = sess
    obs.verdict = None
    findings = []
    if not done:
        findings.append(monitors.F(['C02'], 'hang_on_real_loop', timeout=timeout))
    guards = monitors.lazy_guards(prog)
    for ro in ros:
        ref = refsem.evaluate(prog, ro.tag, ro.val)
        if done:
            findings += monitors.check_outcome(obs, ro, ref)
        f2, _ = monitors.check_invocations(obs, ro, ref, prog, guards)
        findings += f2
        if case.get('store') and done:
            findings += monitors.check_saves(obs, ro, ref, prog)
    out['real_kinds'] = sorted({f['kind'] for f in findings})
    out['real_outcomes'] = [(ro.outcome, repr(ro.value)[:80] if ro.outcome == 'value' else repr(ro.error or ro.raised)[:80])
                            for ro in ros]
    return out


def main(argv):
    rc = 0
    for path in argv:
        w = json.load(open(path))
        case = w.get('case', w)
        if 'prog' not in case or case.get('shape', 'single') == 'seq' or case.get('what'):
            print(path, 'SKIP (not a single/overlap virtual case)')
            continue
        t0 = time.time()
        r = replay(case)
        vk = {'deadlock': 'hang_on_real_loop', 'livelock': 'hang_on_real_loop'}
        expect = {vk.get(k, k) for k in r['virtual_kinds']}
        agree = bool(expect & set(r['real_kinds'])) if expect else not r['real_kinds']
        print(f"{path}: virtual={r['virtual_kinds']} real={r['real_kinds']} outcomes={r['real_outcomes']} "
              f"{'AGREE' if agree else 'DIFFER'} ({time.time() - t0:.1f}s)")
        if not agree:
            rc = 1
    return rc


if __name__ == '__main__':
    sys.exit(main(sys.argv[1:]))
