"""Per-property workloads for the virtual-loop checks.

work(prop, tier, seed, widx, nworkers) -> result dict (see runner.merge)."""
from __future__ import annotations

import copy
import os
import random
import time

from rv import cases, gen, harness, materialize, monitors, refsem

# programs per worker (16 workers) and schedules per (program, input)
BUDGET = {
    #        quick (progs, scheds)   thorough (progs, scheds)
    'C01': ((150, 5), (1500, 16)),
    'C02': ((28, 3), (260, 8)),
    'C03': ((150, 5), (1500, 16)),
    'C04': ((150, 6), (1500, 16)),
    'C05': ((150, 5), (1500, 16)),
    'C07': ((110, 2), (1100, 6)),
    'C08': ((110, 3), (1000, 8)),
    'C09': ((150, 5), (1500, 16)),
    'C10': ((150, 5), (1500, 16)),
    'C11': ((150, 5), (1500, 16)),
    'C12': ((170, 3), (1500, 8)),
    'C13': ((16, 2), (150, 4)),
    'C14': ((150, 5), (1500, 16)),
    'C19': ((150, 5), (1500, 16)),
}

PROFILES = {
    'C01': gen.profile(p_share_lazy=0.35, p_generic=0.08, p_lazy_fail_shape=0.08, p_fatal=0.04),
    'C02': gen.profile(p_fail=0.0, p_retry=0.25, p_rec_nested=0.4, p_rec=0.2, p_share_lazy=0.4, p_sw=0.3),
    'C03': gen.profile(p_rec=0.3, p_share=0.5, p_rec_nested=0.4, p_generic=0.08),
    'C04': gen.profile(p_share=0.75, n_max=11, p_sw=0.22, p_oneof=0.2, p_rec=0.1),
    'C05': gen.profile(p_fail=0.35, p_retry=0.3, p_lazy_fail_shape=0.2, p_fatal=0.08),
    'C07': gen.profile(p_fail=0.2, p_generic=0.12, p_rec=0.25, p_rec_paths_shape=0.12),
    'C08': gen.profile(p_fail=0.15, p_rec=0.25, p_generic=0.12, p_rec_paths_shape=0.08),
    'C09': gen.profile(p_sw=0.45, p_oneof=0.1, p_rec=0.12, p_share_decider=0.5, p_unnamed_switch=0.4, p_share_lazy=0.4, p_lazy_fail_shape=0.12, p_shared_switch_shape=0.1),
    'C10': gen.profile(p_oneof=0.45, p_sw=0.1, p_rec=0.1, p_fail=0.25, p_cand_falsy=0.3, p_contain_shape=0.4, p_deep_chain=0.1, p_lazy_fail_shape=0.12, p_reuse_lazy=0.25, p_share_cand=0.3, p_sibling_oneof_shape=0.1, p_late_oneof_shape=0.1),
    'C11': gen.profile(p_rec=0.5, p_sw=0.1, p_oneof=0.15, p_rec_nested=0.45, p_falsy_ad=0.3, p_nested_exhaust_shape=0.3),
    'C12': gen.profile(p_retry=0.8, p_fail=0.5, n_max=6, p_generic=0.2),
    'C13': gen.profile(n_max=7, p_fatal=0.12),
    'C14': gen.profile(p_retry=0.4, p_fail=0.25),
    'C19': gen.profile(p_rec=0.1),
}

FLOORS = {'C04': {'dup_request': 300}}
_COMMON = ('grammar-generated pipelines (3-14 nodes; Input / SwitchCase / InputOneOf / RecurrentSubGraph marks, shared nodes, mark-less nodes, '
           'retry/default settings, literal None/falsy returns, failure plans that depend on the run input; async / thread / inline / process '
           'modes on virtual executors; ~20%% of programs additionally inject candidate-returns-None or unknown-switch-label) x 2 inputs x '
           'seeded completion schedules on the virtual loop (random with batched delivery 1-4 per iteration, PCT d<=3, fifo, lifo, starve-one '
           'node, eager delivery probability 0-0.9, timer bias; 16 workers with different PYTHONHASHSEEDs). %s A case is non-trivial if the '
           'program contains the property\'s construct (where one is named) and its schedule had >= 2 choice points with >= 2 options; '
           'distinct = distinct hash of (program, input, controller parameters).')
RULES = {
    'C01': _COMMON % 'Oracle: PipelineResult (value equality on provenance terms / admissible error) vs the reference; one outcome class per (program, input) across schedules.',
    'C03': _COMMON % 'Profile: recurrent x2, sharing x1.25, event callbacks that suspend. Oracle: keyword set and values of every body invocation vs the reference\'s expected invocations.',
    'C04': _COMMON % 'Profile: 70%% of programs have a node requested from >= 2 sub-pipeline scopes, event callbacks suspend with p in {0.3,0.7,1}. Oracle: body invocations per (node, arguments) <= expected attempts; floor on observed duplicate-request arrivals.',
    'C05': _COMMON % 'Profile: 35%% failing nodes. Oracle: error identity in the admissible-cause set; nothing escapes chart.run.',
    'C09': _COMMON % 'Profile: switch-heavy. Oracle: selected-case value routed, never-demanded nodes never start.',
    'C10': _COMMON % 'Profile: one-of-heavy with failing candidates. Oracle: first non-failing candidate wins, laziness, containment, OneOfDoesNotHaveResultError.',
    'C11': _COMMON % 'Profile: recurrent-heavy, requested iterations 0..max+1, default on/off. Oracle: per-epoch invocations incl. additional_data, get_default arguments, final value to consumers.',
    'C14': _COMMON % 'Profile: retries and failures. Oracle: lifecycle-event grammar merged with the body trace.',
    'C19': _COMMON % 'A recording write-once artifact store is registered (saves suspend with p 0 / 0.5). Oracle: one save per executed node, value = final value, no marker / exception saved, store never fails a correct run.',
}
FEATURE = {  # construct a program must contain to count as non-trivial for the property
    'C09': 'sw', 'C10': 'oneof', 'C11': 'rec', 'C12': 'retry',
}

HOSTILE_SHARE = 0.2
HOSTILE_FAMILIES = ['candidate_none', 'switch_unknown_label', 'candidate_shared', 'dup_param']


class Acc:
    def __init__(self, prop):
        self.prop = prop
        self.evaluations = 0
        self.programs = 0
        self.nontrivial = set()
        self.findings = []
        self.samples = []
        self.counters = {}
        self.tagcount = {}
        self.t0 = time.time()
        self.n_known = 0
        self.n_new = 0
        self._known = None

    def _attributed(self, kind, tags):
        if self._known is None:
            import json
            import os
            path = os.path.join(os.path.dirname(os.path.dirname(os.path.abspath(__file__))), 'known_findings.json')
            try:
                self._known = [k for k in json.load(open(path))['findings'] if k.get('status', 'open') == 'open']
            except Exception:  # noqa: BLE001
                self._known = []
            if os.environ.get('VERIF_NO_KNOWN'):
                self._known = []
        return any(self.prop in k['properties'] and k['family'] in tags and kind in k['kinds'] for k in self._known)

    def add(self, case, res, nontrivial_feature=True):
        self.evaluations += 1
        st = res.get('stats') or {}
        for k, v in st.items():
            if isinstance(v, (int, float)):
                self.counters[k] = self.counters.get(k, 0) + v
        if nontrivial_feature and st.get('choice_points', 0) >= 2:
            self.nontrivial.add(int(cases.case_id(case)[:12], 16))
        for f in res['findings']:
            self.counters['findings_all_props'] = self.counters.get('findings_all_props', 0) + 1
            if self.prop in f['prop']:
                tags = sorted(set(case['prog'].get('tags', [])) | set(res.get('dyn_tags', [])))
                # findings that a known-finding entry accounts for must not use up the room of the others
                known = self._attributed(f['kind'], tags)
                room = self.n_known if known else self.n_new
                if room < 60:
                    self.findings.append({'kind': f['kind'], 'detail': f['detail'], 'prop': f['prop'],
                                          'tags': tags, 'case': case})
                    if known:
                        self.n_known += 1
                    else:
                        self.n_new += 1
                else:
                    key = 'findings_dropped_known' if known else 'findings_dropped'
                    self.counters[key] = self.counters.get(key, 0) + 1
        if len(self.samples) < 2 and st.get('choice_points', 0) >= 2:
            self.samples.append(cases.sample_of(case, res))

    def result(self):
        return {'evaluations': self.evaluations, 'programs': self.programs,
                'nontrivial': sorted(self.nontrivial), 'findings': self.findings,
                'samples': self.samples, 'counters': self.counters, 'tagcount': self.tagcount,
                'wall': time.time() - self.t0}


def _tagcount(acc, prog):
    key = ','.join(prog.get('tags', [])) or '-'
    acc.tagcount[key] = acc.tagcount.get(key, 0) + 1


def gen_prog(rng, prop, hostile_ok=True):
    prof = dict(PROFILES[prop])
    if hostile_ok and rng.random() < (0.3 if prop == 'C09' else HOSTILE_SHARE):
        fam = rng.choice((['switch_unknown_label'] * 3 if prop == 'C09' else []) + HOSTILE_FAMILIES + (['dup_param'] if prop == 'C03' else [])
                         + (['rec_inner', 'rec_inner'] if prop in ('C01', 'C03', 'C09', 'C10', 'C11') else [])
                         + (['rec_outside_consumer'] * (4 if prop == 'C04' else 2) if prop in ('C01', 'C03', 'C04', 'C11') else []))
        if fam == 'rec_inner':
            prof['rec_inner'] = True
            prof['p_rec'] = max(prof['p_rec'], 0.35)
        elif fam == 'rec_outside_consumer':
            prof['hostile'] = fam
            prof['p_rec'] = max(prof['p_rec'], 0.4)
            prof['p_rec_parallel_shape'] = 0.5
        else:
            prof['hostile'] = fam
    if rng.random() < 0.15:
        # deeper nesting (a recurrent subgraph behind a node of a case of a switch inside a candidate ...)
        prof['max_depth'] = 5
        prof['n_max'] = max(prof.get('n_max', 9), 14)
    return gen.gen_program(rng, prof)


def base_case(prog, runs, rng, **kw):
    c = {'prog': prog, 'runs': runs, 'ctl': cases.random_ctl(rng, prog),
         'gate_events': rng.choice([0.0, 0.0, 0.3, 0.7]), 'shape': 'single'}
    if rng.random() < 0.12:
        c['pool_cap'] = rng.choice([1, 2])      # bounded thread / process pools (jobs wait in the queue)
    c.update(kw)
    return c


def input_start_carrier(rng):
    """The INPUT node is the start node of a recurrent subgraph; the destination asks for an iteration with a payload,
    then for one with payload None (the input node has to run without additional_data again), then finishes."""
    def N(i, **kw):
        d = {'id': i, 'mode': rng.choice(gen.ALL_MODES), 'params': [], 'kind': 'plain', 'plan': {}}
        d.update(kw)
        return d
    nodes = {'N0': N('N0', plain_params=['x'], start_of=True),
             'N2': N('N2', params=[['a', ['in', 'N0']]]),
             'N3': N('N3', params=[['a', ['in', 'N2']]], kind='dest', recurrent=True,
                     plan={'start': 'N0', 'ad_script': rng.choice([{'0': ['next', 'ok'], '1': ['next_none']},
                                                                   {'0': ['next', 'next', 'ok'], '1': ['next_none', 'next_none']},
                                                                   {'0': ['next_none', 'next', 'ok'], '1': ['next_none']}])}),
             'N1': N('N1', params=[['a', ['rec', 'N0', 'N3', 4]]])}
    prog = {'nodes': nodes, 'order': ['N0', 'N2', 'N3', 'N1'], 'input': 'N0', 'output': 'N1'}
    prog['tags'] = sorted(gen.analyze(prog))
    return prog


def self_rec_carrier(rng):
    """RecurrentSubGraph(start_node=N, dest_node=N): a one-node subgraph that re-executes itself."""
    def N(i, **kw):
        d = {'id': i, 'mode': rng.choice(gen.ALL_MODES), 'params': [], 'kind': 'plain', 'plan': {}}
        d.update(kw)
        return d
    script = rng.choice([{'0': ['next'], '1': ['ok']}, {'0': ['next'], '1': ['next', 'ok']},
                         {'0': ['next'], '1': ['next', 'next', 'next', 'next']}, {'0': ['ok']}])
    nodes = {'N0': N('N0', plain_params=['x']),
             'N2': N('N2', params=[['a', ['in', 'N0']]], kind='dest', recurrent=True, start_of=True,
                     plan={'start': 'N2', 'ad_script': script}),
             'N1': N('N1', params=[['a', ['rec', 'N2', 'N2', rng.choice([2, 3])]]])}
    if rng.random() < 0.5:
        nodes['N2']['retry'] = {'use_default': True}
    prog = {'nodes': nodes, 'order': ['N0', 'N2', 'N1'], 'input': 'N0', 'output': 'N1'}
    prog['tags'] = sorted(gen.analyze(prog))
    return prog


def work_generic(prop, tier, seed, widx, nworkers):
    """Single-run cases: program x inputs x schedules (C01 C03 C04 C05 C09 C10 C11 C14 C19)."""
    rng = random.Random(f'{prop}-{seed}-{widx}')
    nprog, nsched = BUDGET[prop][0 if tier == 'quick' else 1]
    acc = Acc(prop)
    feat = FEATURE.get(prop)
    if prop in ('C03', 'C11'):
        for _ in range(10 if tier == 'quick' else 100):
            prog = input_start_carrier(rng) if rng.random() < 0.5 else self_rec_carrier(rng)
            built = harness.Built(prog, events=True)
            for s in range(3):
                case = base_case(prog, [['r0', rng.choice([0, 1, 2, 3])]], rng)
                acc.add(case, cases.run_case(case, built))
                acc.counters['input_start_carrier_runs'] = acc.counters.get('input_start_carrier_runs', 0) + 1
            built.close()
    for _ in range(nprog):
        prog = gen_prog(rng, prop)
        if prop == 'C04' and rng.random() < 0.7:
            # at-most-once is about nodes requested from several sub-pipeline scopes: prefer such programs
            for _try in range(8):
                if 'node_in_two_scopes' in prog['tags']:
                    break
                prog = gen_prog(rng, prop)
        _tagcount(acc, prog)
        acc.programs += 1
        fts = gen.features(prog)
        built = harness.Built(prog, events=True, store=(prop == 'C19'), events2=(prop == 'C14' and rng.random() < 0.5))
        vals = rng.sample([0, 1, 2, 3], 2)
        outcomes = {}
        dyn_by_val = {}
        for val in vals:
            for s in range(nsched):
                case = base_case(prog, [['r0', val]], rng)
                if prop == 'C19':
                    case['store'] = True
                    case['gate_saves'] = rng.choice([0.0, 0.5])
                    if rng.random() < 0.15:
                        # overlapping runs of the chart: every run's artifacts go under that run's id
                        case['runs'] = [['r0', val]] + [[f'r{i}', rng.choice([0, 1, 2, 3])] for i in range(1, rng.randint(2, 3))]
                        case['shape'] = 'overlap'
                        acc.counters['overlapping_cases'] = acc.counters.get('overlapping_cases', 0) + 1
                if prop == 'C04':
                    case['gate_events'] = rng.choice([0.3, 0.7, 1.0])
                if prop == 'C14' and rng.random() < 0.12:
                    # several runs of one chart (overlapping or one after the other): the lifecycle grammar holds per run,
                    # every run's managers see that run's events
                    case['runs'] = [['r0', val]] + [[f'r{i}', rng.choice([0, 1, 2, 3])] for i in range(1, rng.randint(2, 3))]
                    case['shape'] = rng.choice(['overlap', 'seq'])
                    acc.counters['multi_run_cases'] = acc.counters.get('multi_run_cases', 0) + 1
                if prop in ('C01', 'C03', 'C04', 'C11', 'C14') and rng.random() < 0.3:
                    # an artifact store whose save() really suspends (not write-once: C19 judges the saves)
                    case['store'] = True
                    case['write_once'] = False
                    case['gate_saves'] = rng.choice([0.5, 1.0])
                if getattr(built, 'events2', False):
                    case['events2'] = True
                if prop == 'C14' and getattr(built, 'events2', False) and rng.random() < 0.15:
                    # the first event manager raises in one of its callbacks; the second one must still see a consistent lifecycle
                    case['collab_faults'] = [[rng.choice(['pipeline_start', 'pipeline_start', 'node_start', 'node_complete', 'pipeline_complete']),
                                              rng.randint(0, 2)]]
                    acc.counters['manager_fault_cases'] = acc.counters.get('manager_fault_cases', 0) + 1
                elif prop == 'C14' and rng.random() < 0.2:
                    # an artifact store that raises at its k-th save (the event managers do not raise)
                    case['store'] = True
                    case['write_once'] = False
                    case['collab_faults'] = [['save', rng.randint(0, max(1, len(prog['order']) - 1))]]
                    acc.counters['store_fault_cases'] = acc.counters.get('store_fault_cases', 0) + 1
                res = cases.run_case(case, built)
                acc.add(case, res, nontrivial_feature=(feat is None or feat in fts))
                if prop == 'C01':
                    obs_out = _outcome_class(res)
                    outcomes.setdefault(val, set()).add(obs_out)
                    dyn_by_val.setdefault(val, set()).update(res.get('dyn_tags', []))
                if built.build_error is not None:
                    break
            if built.build_error is not None:
                break
        if prop in ('C01', 'C02x') and built.build_error is None and len(gen.reachable(prog)) <= 7 \
                and (tier == 'thorough' or rng.random() < 0.12):
            # systematic exploration of completion orders for small programs
            for val in vals[:1]:
                last = None
                for c2, res in cases.explore_orders(base_case(prog, [['r0', val]], rng), built,
                                                    limit=300 if tier == 'thorough' else 120):
                    acc.add(c2, res, nontrivial_feature=True)
                    acc.counters['orders_explored'] = acc.counters.get('orders_explored', 0) + 1
                    outcomes.setdefault(val, set()).add(_outcome_class(res))
                    dyn_by_val.setdefault(val, set()).update(res.get('dyn_tags', []))
                    last = res
                if last is not None:
                    acc.counters['programs_order_exhausted' if last['dfs_exhausted'] else 'programs_order_truncated'] = \
                        acc.counters.get('programs_order_exhausted' if last['dfs_exhausted'] else 'programs_order_truncated', 0) + 1
        if prop == 'C01':
            for val, oc in outcomes.items():
                vals_seen = {o for o in oc if o and o[0] == 'value'}
                kinds = {o[0] for o in oc if o}
                if len(vals_seen) > 1 or ('value' in kinds and 'error' in kinds):
                    acc.findings.append({'kind': 'schedule_dependent_outcome', 'prop': ['C01'],
                                         'detail': {'outcomes': sorted(map(str, oc))[:4]},
                                         'tags': sorted(set(prog.get('tags', [])) | dyn_by_val.get(val, set())),
                                         'case': base_case(prog, [['r0', val]], rng)})
        built.close()
    return acc.result()


def _outcome_class(res):
    # filled by run_case via refs only; need the observed outcome: carried in stats
    st = res.get('stats') or {}
    return st.get('outcome_class')
