"""C06 on REAL default pools: sibling nodes of one depth that run in the engine's own thread / process pool (as created by
threads_pool_registry.auto_init() / process_pool_registry.auto_init()) must all be in flight at the same time.

Every sibling body announces itself and then waits until all W siblings have announced themselves (threads: a
threading.Barrier; processes: marker files in a scratch directory).  The verdict is logical, not a deadline: a
violation is reported only if the rendezvous timed out while fewer than W bodies had STARTED - i.e. a sibling was
not started although nothing of smaller depth was outstanding.  The generous wall-clock bound (20 s for starting at
most 8 pool jobs) only ends the wait; if all W bodies had started and the rendezvous still broke, the case is
counted as inconclusive, never as a violation.

Runs in a fresh interpreter:  python -m rv.realwidth <out.json> <seed>
W stays <= 8 for threads (the stdlib default is min(32, cpu_count + 4) >= 5 on every machine; this machine: 16 cores)
and <= 4 for processes (default: cpu_count workers).
"""

import asyncio
import json
import logging
import os
import random
import shutil
import sys
import tempfile
import threading
import time

from rv.harness import REPO  # noqa: F401  (puts the engine on sys.path)

WAIT = 20.0
STATE = {'barrier': None, 'started': 0, 'lock': threading.Lock(), 'dir': None, 'w': 0}


def _thread_body(idx):
    with STATE['lock']:
        STATE['started'] += 1
    try:
        STATE['barrier'].wait(timeout=WAIT)
        return ('ok', idx)
    except threading.BrokenBarrierError:
        with STATE['lock']:
            if STATE.get('at_break') is None:
                STATE['at_break'] = STATE['started']     # bodies started when the rendezvous gave up first
        return ('broken', idx)


def _proc_body(idx, d, w):
    open(os.path.join(d, f'in_{idx}'), 'w').close()
    t0 = time.time()
    while time.time() - t0 < WAIT:
        if len([f for f in os.listdir(d) if f.startswith('in_')]) >= w:
            return ('ok', idx)
        time.sleep(0.01)
    n = len([f for f in os.listdir(d) if f.startswith('in_')])
    open(os.path.join(d, f'brk_{idx}_{n}'), 'w').close()
    return ('broken', idx)


def make_classes(w, kind):
    from ml_pipeline_engine.dag_builders.annotation.marks import Input
    from ml_pipeline_engine.node import ProcessorBase
    from ml_pipeline_engine.node.enums import NodeTag

    class Inp(ProcessorBase):
        name = f'inp_{kind}_{w}'

        async def process(self, x: int) -> int:
            return x

    sibs = []
    for i in range(w):
        if kind in ('thread', 'thread_tag'):
            def process(self, a: Input(Inp)):
                return _thread_body(self.idx)
            tags = () if kind == 'thread' else (NodeTag.thread,)
        else:
            def process(self, a: Input(Inp)):
                return _proc_body(self.idx, self.scratch, self.width)
            tags = (NodeTag.process,)
        cls = type(f'Sib_{kind}_{w}_{i}', (ProcessorBase,), {'name': f'sib_{kind}_{w}_{i}', 'tags': tags, 'process': process,
                                                              'idx': i, 'scratch': STATE['dir'], 'width': w,
                                                              '__module__': __name__})
        cls.__qualname__ = cls.__name__
        globals()[cls.__name__] = cls
        sibs.append(cls)
    # the builder reads the annotations of the declared parameters: declare them explicitly
    src = 'async def process(self, ' + ', '.join(f'p{i}: _A{i}' for i in range(w)) + '):\n    return [' + \
          ', '.join(f'p{i}' for i in range(w)) + ']\n'
    ns = {f'_A{i}': Input(c) for i, c in enumerate(sibs)}
    exec(compile(src, '<rv.realwidth out>', 'exec', dont_inherit=True), ns)      # noqa: S102 - harness-side class construction
    Out = type(f'Out_{kind}_{w}', (ProcessorBase,), {'name': f'out_{kind}_{w}', 'process': ns['process'], '__module__': __name__})
    globals()[Out.__name__] = Out
    return Inp, sibs, Out


async def one_case(w, kind):
    from ml_pipeline_engine.chart import PipelineChart
    from ml_pipeline_engine.dag_builders.annotation import build_dag
    STATE['barrier'] = threading.Barrier(w)
    STATE['started'] = 0
    STATE['at_break'] = None
    STATE['w'] = w
    if kind == 'process':
        STATE['dir'] = tempfile.mkdtemp(prefix='rvwidth_')
    Inp, sibs, Out = make_classes(w, kind)
    chart = PipelineChart(f'width_{kind}_{w}', build_dag(input_node=Inp, output_node=Out))
    t0 = time.time()
    try:
        res = await asyncio.wait_for(chart.run(input_kwargs={'x': 1}), timeout=3 * WAIT)
    except asyncio.TimeoutError:
        res = None
    wall = time.time() - t0
    if kind == 'process':
        brk = [int(f.rsplit('_', 1)[1]) for f in os.listdir(STATE['dir']) if f.startswith('brk_')]
        started = min(brk) if brk else len([f for f in os.listdir(STATE['dir']) if f.startswith('in_')])
        shutil.rmtree(STATE['dir'], ignore_errors=True)
    else:
        started = STATE['at_break'] if STATE['at_break'] is not None else STATE['started']
    vals = res.value if (res is not None and res.error is None) else None
    broken = vals is None or any(v[0] == 'broken' for v in vals)
    return {'w': w, 'kind': kind, 'wall': round(wall, 2), 'broken': broken, 'started_when_given_up': started, 'error': repr(getattr(res, 'error', 'timeout'))[:200]}


def main(argv):
    out, seed = argv[0], int(argv[1])
    logging.disable(logging.CRITICAL)
    from ml_pipeline_engine.parallelism import process_pool_registry, threads_pool_registry
    threads_pool_registry.auto_init()
    process_pool_registry.auto_init()
    rng = random.Random(seed)
    plan = [(5, 'thread'), (rng.choice([6, 7, 8]), 'thread'), (rng.choice([5, 6, 8]), 'thread_tag'),
            (rng.choice([2, 3, 4]), 'process')]
    rows = []
    loop = asyncio.new_event_loop()
    asyncio.set_event_loop(loop)
    for w, kind in plan:
        # a broken rendezvous with fewer than W bodies started while the loop had nothing else to do = violation;
        # the number of started bodies is sampled when the rendezvous gives up
        r = loop.run_until_complete(one_case(w, kind))
        rows.append(r)
    loop.close()
    try:
        threads_pool_registry.shutdown()
        process_pool_registry.shutdown()
    except Exception:  # noqa: BLE001
        pass
    json.dump(rows, open(out, 'w'))
    return 0


if __name__ == '__main__':
    sys.exit(main(sys.argv[1:]))
