"""Runtime support imported by materialised programs: instrumented node bodies, collaborators,
the trace, and the *pure* behaviour function shared with the reference semantics.
"""
from __future__ import annotations

import asyncio
import enum
import contextvars
import zlib


class _Missing:
    def __repr__(self):
        return '<MISSING>'

    def __reduce__(self):
        return (_get_missing, ())


def _get_missing():
    return MISSING


MISSING = _Missing()


class SelfUnequal:
    """A value that is not equal to itself (like float('nan')) but equal to every other instance with the same tag, so
    that the reference's copy compares equal to the engine's while `x == x` on the engine's own object is False."""

    def __init__(self, tag):
        self.tag = tag

    def __eq__(self, other):
        return other is not self and isinstance(other, SelfUnequal) and other.tag == self.tag

    def __ne__(self, other):
        return not self.__eq__(other)

    def __hash__(self):
        return hash(('SelfUnequal', self.tag))

    def __repr__(self):
        return f'SelfUnequal({self.tag!r})'


class LabelEnum(str, enum.Enum):
    """A switch node may return a str-enum member that EQUALS a declared label (and hashes like it)."""
    L0 = 'L0'
    L1 = 'L1'
    L2 = 'L2'


class Boom(Exception):
    """Base of planned node failures; carries where it was raised."""

    def __init__(self, node=None, attempt=None, run=None):
        super().__init__(node, attempt, run)
        self.node = node
        self.attempt = attempt
        self.run = run


class E1(Boom):
    pass


class E2(Boom):
    pass


class E1Sub(E1):
    pass


class EOther(Boom):
    pass


class EFalsy(Boom):
    """A legitimate exception class whose instances are falsy (e.g. a collection of validation errors)."""

    def __len__(self):
        return 0


class ERt(Boom, RuntimeError):
    """A planned failure that belongs to the RuntimeError family (as NotImplementedError, RecursionError or the
    errors executors raise themselves do)."""


class EKey(Boom, KeyError):
    """... and one of the LookupError family."""


class ETimeout(Boom, TimeoutError):
    """... and the builtin TimeoutError (= asyncio.TimeoutError since 3.11): an ordinary Exception for the retry policy."""


class ECancel(asyncio.CancelledError):
    """The node body itself ends with CancelledError although nobody cancelled the run (it awaited something of
    its own that was cancelled): a BaseException outcome of the node like any other."""

    def __init__(self, node=None, attempt=None, run=None):
        super().__init__(node, attempt, run)
        self.node = node
        self.attempt = attempt
        self.run = run


class Fatal(BaseException):
    def __init__(self, node=None, attempt=None, run=None):
        super().__init__(node, attempt, run)
        self.node = node
        self.attempt = attempt
        self.run = run


class CollabFault(Exception):
    pass


class AlreadySaved(Exception):
    pass


EXC = {'E1': E1, 'E2': E2, 'E1Sub': E1Sub, 'EOther': EOther, 'EFalsy': EFalsy, 'ERt': ERt, 'EKey': EKey, 'ETimeout': ETimeout, 'Fatal': Fatal, 'ECancel': ECancel,
       'Exception': Exception, 'BaseException': BaseException}

RUN = contextvars.ContextVar('rv_run', default=None)


# ----------------------------------------------------------------------------------------------
# Pure helpers on provenance terms (shared with refsem)
# ----------------------------------------------------------------------------------------------

def term(node, kwargs, use_ad=True):
    items = []
    for k in sorted(kwargs):
        if k == 'additional_data' and not use_ad:
            continue
        items.append((k, kwargs[k]))
    return ('V', node, tuple(items))


def find_input(obj):
    """First ('IN', run, val) leaf inside a value (depth-first, deterministic)."""
    stack = [obj]
    while stack:
        o = stack.pop()
        if isinstance(o, tuple):
            if len(o) == 3 and o[0] == 'IN':
                return o
            stack.extend(reversed(o))
        elif isinstance(o, dict):
            stack.extend(reversed([o[k] for k in sorted(o)]))
    return None


def find_ad(obj, start_id):
    """additional_data recorded in the (first found) term of node start_id inside obj."""
    stack = [obj]
    while stack:
        o = stack.pop()
        if isinstance(o, tuple):
            if len(o) == 3 and o[0] in ('V', 'D') and o[1] == start_id:
                for k, v in o[2]:
                    if k == 'additional_data':
                        return v
                return None
            stack.extend(reversed(o))
        elif isinstance(o, dict):
            stack.extend(reversed([o[k] for k in sorted(o)]))
    return None


def has_foreign_run(obj, run):
    stack = [obj]
    while stack:
        o = stack.pop()
        if isinstance(o, tuple):
            if len(o) == 3 and o[0] == 'IN':
                if o[1] != run:
                    return True
                continue
            if len(o) == 4 and o[0] == 'AD':
                if o[3] != run:
                    return True
                continue
            stack.extend(o)
        elif isinstance(o, dict):
            stack.extend(o.values())
    return False


def cmp_kwargs(node, kwargs):
    """kwargs as compared by the oracle: a start node that ignores additional_data (nested inner start,
    DESIGN A5: the statement is silent about the data it sees) is compared without it."""
    if (node.get('plan') or {}).get('use_ad', True) or 'additional_data' not in kwargs:
        return kwargs
    return {k: v for k, v in kwargs.items() if k != 'additional_data'}


def sel(obj, n):
    return zlib.crc32(repr(obj).encode()) % n


def behave(node, kwargs, attempt, run):
    """Pure behaviour of IR node `node` on `kwargs` at attempt index `attempt` (0-based).

    Returns ('raise', exc_name) | ('next', data) | ('ok', value).
    """
    plan = node.get('plan') or {}
    inp = find_input(kwargs)
    val = inp[2] if inp is not None else None
    fail = plan.get('fail')
    if fail:
        when = plan.get('fail_when')
        if when is None or val in when:
            if fail[0] == 'ALWAYS':
                return ('raise', fail[1])
            if attempt < len(fail) and fail[attempt] is not None:
                return ('raise', fail[attempt])
    foa = plan.get('fail_on_ad')
    if foa and kwargs.get('additional_data') is not None and val in (plan.get('fail_on_ad_when') or [val]):
        # the start node of a recurrent subgraph that fails only in a re-iteration (for some inputs)
        return ('raise', foa)
    kind = node.get('kind', 'plain')
    if kind == 'decider':
        lbi = plan.get('label_by_input')
        if lbi is not None and str(val) in lbi:
            return ('ok', lbi[str(val)])
        labels = plan['labels']
        lab = labels[sel(sorted(kwargs.items()), len(labels))]
        if plan.get('label_enum') and lab in ('L0', 'L1', 'L2'):
            lab = LabelEnum(lab)
        return ('ok', lab)
    if kind == 'dest' and 'iter_by_attempt' in plan:
        # nested (inner) recurrent destination: its start node ignores additional_data, so every inner
        # iteration has identical arguments; it asks for another iteration until it has been invoked
        # `iter_by_attempt` times with these arguments (the attempt counter is keyed by arguments)
        n_iter = plan['iter_by_attempt']
        if 'iter_by_attempt_outer' in plan and find_ad(kwargs, plan['outer_start']) is not None:
            # the inner subgraph behaves differently (e.g. is exhausted) only in a re-iteration of the outer one
            n_iter = plan['iter_by_attempt_outer']
        if attempt < n_iter:
            if 'falsy_ad' in plan:
                return ('next', plan['falsy_ad'][0])       # a falsy payload is a legitimate payload
            return ('next', ('AD', node['id'], attempt + 1, run))
    elif kind == 'dest' and 'ad_script' in plan:
        # scripted destination: what it does depends on whether the start node saw additional_data in this iteration and
        # on how often it has been invoked with these arguments ('next' = payload tuple, 'next_none' = payload None)
        if plan['start'] == node['id']:      # start node == destination: its own keyword
            key = '1' if kwargs.get('additional_data') is not None else '0'
        else:
            key = '1' if find_ad(kwargs, plan['start']) is not None else '0'
        seq = plan['ad_script'].get(key, [])
        act = seq[attempt] if attempt < len(seq) else 'ok'
        if act == 'next':
            return ('next', ('AD', node['id'], attempt + 1, run))
        if act == 'next_none':
            return ('next', None)
    elif kind == 'dest':
        want = plan.get('want_iter', 0)
        if isinstance(want, dict):
            want = want.get(str(val), want.get('*', 0))
        ad = find_ad(kwargs, plan['start'])
        k = ad[2] if (isinstance(ad, tuple) and len(ad) == 4 and ad[0] == 'AD') else 0
        if k < want:
            return ('next', ('AD', node['id'], k + 1, run))
    ret = plan.get('ret', 'term')
    if ret == 'term':
        return ('ok', term(node['id'], kwargs, plan.get('use_ad', True)))
    if isinstance(ret[1], list) and ret[1] and ret[1][0] == '__selfunequal__':
        return ('ok', SelfUnequal(node['id']))
    return ('ok', ret[1])


def default_value(node, kwargs):
    if (node.get('plan') or {}).get('default_none'):
        return None         # None is a legitimate default value
    return ('D', node['id'], tuple((k, kwargs[k]) for k in sorted(kwargs)))


# ----------------------------------------------------------------------------------------------
# Session: trace + gating; one per executed case
# ----------------------------------------------------------------------------------------------

class Session:
    def __init__(self, prog, loop=None, gate_events=0.0, gate_saves=0.0, rng=None, real=False,
                 collab_faults=None):
        self.prog = prog
        self.nodes = prog['nodes']
        self.loop = loop
        self.trace = []
        self.frozen = False
        self.attempts = {}      # (run, node, argsrepr) -> count
        self.objs = []          # keeps exception / value objects alive (ids stay unique)
        self.gate_events = gate_events
        self.gate_saves = gate_saves
        self.rng = rng
        self.real = real
        self.collab_faults = dict(collab_faults or {})   # (callback, k) -> True
        self.collab_calls = {}
        self.saved = {}         # (run, node_id) -> value  (write-once store)
        self.default_run = None

    def ev(self, kind, run, node, **data):
        if self.frozen:
            return
        step = self.loop.step if self.loop is not None and hasattr(self.loop, 'step') else -1
        vt = self.loop.time() if self.loop is not None else 0.0
        rec = {'k': kind, 'run': run, 'node': node, 'step': step, 'vt': vt}
        rec.update(data)
        self.trace.append(rec)

    def run_of(self, kwargs):
        inp = find_input(kwargs)
        if inp is not None:
            return inp[1]
        r = RUN.get()
        return r if r is not None else self.default_run


S: Session = None   # type: ignore  # current session (virtual mode: single thread)
PROGS = {}          # module name -> IR program (filled by materialize.load; survives fork)
REAL = {'fd': None, 'run': None, 'jitter': 0.002}   # real-loop mode: trace goes to an O_APPEND file


def real_emit(kind, run, node, **data):
    import os
    import threading
    rec = {'k': kind, 'run': run, 'node': node, 'pid': os.getpid(),
           'main_thread': threading.current_thread() is threading.main_thread()}
    rec.update(data)
    os.write(REAL['fd'], (repr(rec) + '\n').encode())


def set_session(s):
    global S
    S = s


def pack(kwargs, **named):
    out = dict(kwargs)
    for k, v in named.items():
        if v is not MISSING:
            out[k] = v
    return out


class _RealSession:
    """Minimal stand-in used by bodies running on real pools (possibly in a forked child)."""
    real = True
    objs = []

    def __init__(self, prog, mod=None):
        self.nodes = prog['nodes']
        self.attempts = {}
        self.mod = mod

    def ev(self, kind, run, node, **data):
        data.pop('oid', None)
        real_emit(kind, run, node, mod=self.mod, **data)

    def run_of(self, kwargs):
        inp = find_input(kwargs)
        return inp[1] if inp is not None else REAL['run']


_real_sessions = {}


def _session_for(inst):
    if REAL['fd'] is None:
        return S
    cls = type(inst)
    while getattr(cls, '__generic_class__', None) is not None:     # build_node() derivatives live in the engine's module
        cls = cls.__generic_class__
    mod = cls.__module__
    rs = _real_sessions.get(mod)
    if rs is None:
        rs = _real_sessions[mod] = _RealSession(PROGS[mod], mod)
    return rs


def _begin(nid, kwargs, inst=None):
    s = _session_for(inst) if inst is not None else S
    node = s.nodes[nid]
    run = s.run_of(kwargs)
    if s.real and node.get('mode') not in ('async', 'async_tagged'):
        import random as _r
        import time as _t
        _t.sleep(_r.random() * REAL['jitter'])
    key = (run, nid, repr(sorted(cmp_kwargs(node, kwargs).items(), key=lambda kv: kv[0])))
    attempt = s.attempts.get(key, 0)
    s.attempts[key] = attempt + 1
    uses = getattr(inst, '_rv_uses', 0) if inst is not None else 0
    if inst is not None:
        try:
            inst._rv_uses = uses + 1
        except Exception:  # noqa: BLE001
            pass
    fac = None
    if node.get('factory'):
        fac = bool(getattr(inst, '_rv_factory', False)) if inst is not None else None
    s.ev('body_start', run, nid, attempt=attempt, kwargs=dict(kwargs), ctxrun=RUN.get(), inst_uses=uses, factory=fac)
    return s, node, run, attempt


def _finish(s, node, run, attempt, kwargs, inst):
    nid = node['id']
    out = behave(node, kwargs, attempt, run)
    if out[0] == 'raise':
        exc = EXC[out[1]](nid, attempt, run)
        s.objs.append(exc)
        s.ev('body_raise', run, nid, attempt=attempt, exc=out[1], oid=id(exc))
        raise exc
    if out[0] == 'next':
        s.ev('body_next', run, nid, attempt=attempt, data=out[1])
        return inst.next_iteration(out[1])
    s.ev('body_ret', run, nid, attempt=attempt, value=out[1])
    return out[1]


def body(inst, nid, kwargs):
    s, node, run, attempt = _begin(nid, kwargs, inst)
    return _finish(s, node, run, attempt, kwargs, inst)


async def abody(inst, nid, kwargs):
    s, node, run, attempt = _begin(nid, kwargs, inst)
    # per-call state kept on the node object across a suspension point: legitimate because the engine
    # promises a new node object per invocation (C08 mechanism "get_instance")
    inst._rv_call = kwargs
    try:
        if s.real:
            import random as _r
            await asyncio.sleep(_r.random() * REAL['jitter'])
        else:
            await gate(('body', run, nid))
        work = (node.get('plan') or {}).get('work')
        if work and not s.real:
            await asyncio.sleep(work)       # the attempt takes (virtual) time before it returns / raises
    except asyncio.CancelledError:
        s.ev('body_cancelled', run, nid, attempt=attempt)
        raise
    return _finish(s, node, run, attempt, inst._rv_call, inst)


def default(inst, nid, kwargs):
    # the engine passes additional_data under its str-enum key (equal to, but not printed as, the plain name)
    kwargs = {str(getattr(k, 'value', k)): v for k, v in kwargs.items()}
    s = _session_for(inst)
    run = s.run_of(kwargs)
    s.ev('default_call', run, nid, kwargs=dict(kwargs))
    return default_value(s.nodes[nid], kwargs)


async def gate(key):
    s = S
    if s.real:
        d = s.rng.random() * 0.003 if s.rng else 0
        await asyncio.sleep(d)
        return
    await s.loop.gate_future(key)


# ----------------------------------------------------------------------------------------------
# Collaborators
# ----------------------------------------------------------------------------------------------

def _nid(node_id):
    # engine node id -> IR id where possible ('processor__N3' -> 'N3')
    if isinstance(node_id, str) and '__' in node_id:
        return node_id.split('__', 1)[1]
    return node_id


class RecordingEvents:
    """Event manager: records every callback; awaits a gate with probability gate_events."""

    async def _cb(self, name, ctx, node_id=None, **data):
        s = S
        run = ctx.pipeline_id
        # per-run state kept on the manager object: legitimate, the engine creates the managers of a run from the classes
        mine = getattr(self, '_rv_run', None)
        if mine is None:
            self._rv_run = run
        elif mine != run:
            s.ev('manager_shared', run, None, other=mine, cb=name)
        n = s.collab_calls.get((run, name), 0)
        s.collab_calls[(run, name)] = n + 1
        s.ev('cb_' + name, run, _nid(node_id) if node_id is not None else None,
             engine_id=node_id, n=n, **data)
        if s.collab_faults.get((name, n)):
            s.ev('cb_fault', run, None, cb=name, n=n)
            raise CollabFault(name, n)
        if not s.real and s.gate_events and s.rng.random() < s.gate_events:
            await gate(('cb', run, name, node_id))
            s.ev('cb_resume', run, _nid(node_id) if node_id is not None else None, cb=name)

    async def on_pipeline_start(self, ctx):
        await self._cb('pipeline_start', ctx)

    async def on_pipeline_complete(self, ctx, result):
        S.objs.append(result)
        await self._cb('pipeline_complete', ctx, rid=id(result),
                       rerr=(id(result.error) if result.error is not None else None),
                       rval=result.value)

    async def on_node_start(self, ctx, node_id):
        await self._cb('node_start', ctx, node_id)

    async def on_node_complete(self, ctx, node_id, error):
        if error is not None:
            S.objs.append(error)
        await self._cb('node_complete', ctx, node_id,
                       err=(id(error) if error is not None else None),
                       errtype=(type(error).__name__ if error is not None else None))


class SecondEvents:
    """A second event manager behind RecordingEvents in the chart's list: never raises, suspends only when the
    case asks for it (gate_events2); records `cb2_*` events.  Every manager has to see the same lifecycle, whatever the managers before it do."""

    async def _cb(self, name, ctx, node_id=None, **data):
        s = S
        run = ctx.pipeline_id
        s.ev('cb2_' + name, run, _nid(node_id) if node_id is not None else None, **data)
        g2 = getattr(s, 'gate_events2', 0.0)
        if not s.real and g2 and s.rng.random() < g2:
            await gate(('cb2', run, name, node_id))
            s.ev('cb2_resume', run, _nid(node_id) if node_id is not None else None, cb=name)

    async def on_pipeline_start(self, ctx):
        await self._cb('pipeline_start', ctx)

    async def on_pipeline_complete(self, ctx, result):
        await self._cb('pipeline_complete', ctx, rid=id(result))

    async def on_node_start(self, ctx, node_id):
        await self._cb('node_start', ctx, node_id)

    async def on_node_complete(self, ctx, node_id, error):
        await self._cb('node_complete', ctx, node_id, err=(id(error) if error is not None else None))


def make_store_class():
    from ml_pipeline_engine.artifact_store.store.base import ArtifactStore

    class RecordingStore(ArtifactStore):
        """Write-once in-memory store recording every save."""

        async def save(self, node_id, data):
            s = S
            run = self.ctx.pipeline_id
            n = s.collab_calls.get((run, 'save'), 0)
            s.collab_calls[(run, 'save')] = n + 1
            s.objs.append(data)
            s.ev('save', run, _nid(node_id), engine_id=node_id, n=n, value=data, vid=id(data),
                 vtype=type(data).__name__)
            if s.collab_faults.get(('save', n)):
                s.ev('cb_fault', run, None, cb='save', n=n)
                raise CollabFault('save', n)
            if not s.real and s.gate_saves and s.rng.random() < s.gate_saves:
                await gate(('save', run, node_id))
            if s.write_once and (run, node_id) in s.saved:
                s.ev('save_dup', run, _nid(node_id), engine_id=node_id)
                raise AlreadySaved(node_id)
            s.saved[(run, node_id)] = data
            s.ev('save_done', run, _nid(node_id), engine_id=node_id, n=n)

        async def load(self, node_id):
            return S.saved[(self.ctx.pipeline_id, node_id)]

    return RecordingStore


class NotAClass:
    """An object that is not a class, used as a node in C16 defect injection."""

    def __init__(self, n):
        self.n = n

    def process(self, **kwargs):
        return None
