"""Render an IR program to Python source, compile it under a synthetic filename registered with
linecache (so inspect.getsourcelines works) and return the module."""
from __future__ import annotations

import hashlib
import json
import linecache
import sys
import types

HEADER = '''\
import typing as t
from ml_pipeline_engine.dag_builders.annotation.marks import Input, InputOneOf, SwitchCase
from ml_pipeline_engine.dag_builders.annotation.marks import RecurrentSubGraph, GenericInput, InputGeneric
from ml_pipeline_engine.node import ProcessorBase, RecurrentProcessor, build_node
from ml_pipeline_engine.node.enums import NodeTag, NodeType
from rv import rt
_M = rt.MISSING
'''

_counter = [0]


def mark_src(mark):
    k = mark[0]
    if k == 'in':
        return f'Input({mark[1]})'
    if k == 'sw':
        _, name, decider, cases = mark
        cs = ', '.join(f'({lab!r}, {nid})' for lab, nid in cases)
        nm = f', name={name!r}' if name is not None else ''
        return f'SwitchCase({decider}, [{cs}]{nm})'
    if k == 'oneof':
        return 'InputOneOf([' + ', '.join(mark[1]) + '])'
    if k == 'rec':
        _, start, dest, mx = mark
        return f'RecurrentSubGraph(start_node={start}, dest_node={dest}, max_iterations={mx})'
    if k == 'generic':
        return 'InputGeneric(t.Any)'
    raise ValueError(k)


def tags_src(mode, style=None):
    """Source of the tags tuple of an execution mode; style 'str': the tags are spelled as plain strings (NodeTag is a
    str-enum, `('process',)` is the same declaration as `(NodeTag.process,)`)."""
    if mode == 'async_tagged' and style in ('coro_thread', 'coro_process'):
        # a coroutine that carries a pool tag: it is still awaited in the loop, the tag is ignored
        return '(NodeTag.thread,)' if style == 'coro_thread' else '(NodeTag.process,)'
    if mode in ('inline', 'async_tagged'):
        return "('non_async',)" if style == 'str' else '(NodeTag.non_async,)'     # async_tagged: a coroutine ignores the tag
    if mode == 'process':
        return "('process',)" if style == 'str' else '(NodeTag.process,)'
    if mode == 'thread_tag':
        return "('thread',)" if style == 'str' else '(NodeTag.thread,)'
    if mode == 'custom_tag':
        return "('io_bound',)"
    return None


def node_src(n):
    """Source of one node class.  Naming: n['nm'] = 'id' (name = IR id, default) | 'none' (no name
    attribute: engine id derives from module + class) | ['custom', value]."""
    nid = n['id']
    if n.get('generic_of'):
        return generic_src(n)
    base = 'RecurrentProcessor' if n.get('recurrent') else 'ProcessorBase'
    if n.get('base'):
        base = n['base']
    lines = [f'class {nid}({base}):']
    if n.get('doc'):
        lines.append(f'    """{n["doc"]}"""')
    nm = n.get('nm', 'id')
    if nm == 'id':
        lines.append(f'    name = {nid!r}')
    elif nm != 'none':
        lines.append(f'    name = {nm[1]!r}')
    if 'node_type' in n:
        nt = n['node_type']
        if isinstance(nt, list) and nt and nt[0] == 'enum':
            lines.append(f'    node_type = NodeType.{nt[1]}')      # an enum member instead of its value
        else:
            lines.append(f'    node_type = {nt!r}')
    if n.get('verbose_name'):
        lines.append(f'    verbose_name = {n["verbose_name"]!r}')
    mode = n.get('mode', 'thread')
    if n.get('attrs_tags_base') and mode not in ('async', 'async_tagged'):
        mode = 'thread'     # the execution mode is overridden by build_node(attrs={'tags': ...}) on the derived node
    tl = tags_src(mode, n.get('tag_style'))
    if tl is not None:
        lines.append(f'    tags = {tl}')
    elif n.get('explicit_tags'):
        lines.append('    tags = ()')
    r = n.get('retry')
    if r:
        if r.get('attempts') is not None:
            lines.append(f'    attempts = {r["attempts"]!r}')
        if r.get('delay') is not None:
            lines.append(f'    delay = {r["delay"]!r}')
        if r.get('exceptions') is not None:
            lines.append('    exceptions = (' + ''.join(
                (f'rt.{e}, ' if e not in ('Exception', 'BaseException') else f'{e}, ')
                for e in r['exceptions']) + ')')
        if r.get('use_default'):
            lines.append('    use_default = True')
    if n.get('factory'):
        # node objects of this class have to be made by its default_factory (module_loading.get_instance honours it)
        lines.append('    @classmethod')
        lines.append('    def default_factory(cls, *args, **kwargs):')
        lines.append('        obj = cls(*args, **kwargs)')
        lines.append('        obj._rv_factory = True')
        lines.append('        return obj')
    if n.get('has_default', True):
        lines.append('    def get_default(self, **kwargs):')
        lines.append('        return rt.default(self, self.name, kwargs)')
    params = []
    names = []
    for pname, mark in n.get('params', []):
        if n.get('generic_base'):
            params.append(f'{pname}: InputGeneric(t.Any) = _M')
        else:
            params.append(f'{pname}: {mark_src(mark)} = _M')
        names.append(pname)
    for pname in n.get('plain_params', []):      # e.g. the input node's caller-supplied kwargs
        params.append(f'{pname}: t.Any = _M')
        names.append(pname)
    for pname in n.get('unannotated_params', []):   # C16 defect injection
        params.append(f'{pname}=_M')
        names.append(pname)
    if n.get('start_of'):
        if n.get('no_additional_data'):
            pass
        else:
            params.append('additional_data: t.Optional[t.Any] = _M')
            names.append('additional_data')
    kwonly = [f'{pname}=_M' for pname in n.get('unannotated_kwonly', [])]     # C16 defect: a keyword-only parameter without annotation
    names += list(n.get('unannotated_kwonly', []))
    sig = ', '.join(['self'] + params + (['*'] + kwonly if kwonly else []) + ['**kwargs'])
    packed = ', '.join(f'{p}={p}' for p in names)
    call = f'rt.pack(kwargs{", " + packed if packed else ""})'
    body_id = 'self.name' if nm != 'none' else repr(nid)
    if n.get('no_process'):
        lines.append('    process = None')
    elif mode in ('async', 'async_tagged'):
        lines.append(f'    async def process({sig}):')
        if n.get('method_doc'):
            lines.append(f'        """{n["method_doc"]}"""')
        lines.append(f'        return await rt.abody(self, {body_id}, {call})')
    else:
        lines.append(f'    def process({sig}):')
        if n.get('method_doc'):
            lines.append(f'        """{n["method_doc"]}"""')
        lines.append(f'        return rt.body(self, {body_id}, {call})')
    if len(lines) == 1:
        lines.append('    pass')
    return '\n'.join(lines)


def generic_src(n):
    """A node derived with build_node from a generic base class (n['generic_of'] = base id)."""
    nid = n['id']
    deps = ', '.join(f'{p}={mark_src(m)}' for p, m in n.get('params', []))
    # build_node registers the class under class_name in the engine's module globals: keep it unique per program
    args = [n['generic_of'], f'class_name={("Generic" + nid + "_" + n.get("_uniq", ""))!r}']
    if n.get('no_class_name'):
        args = [n['generic_of']]      # several derivatives of one base then carry the same class name (Generic<Base>)
    if not n.get('inherit_name'):
        args.insert(1, f'node_name={nid!r}')
    if n.get('dep_default'):
        args.append(f"dependencies_default=dict(dd=('DD', {nid!r}))")
    attrs = []
    if n.get('attrs_tags'):
        # the derived node overrides the execution mode of the generic base class
        attrs.append(repr('tags') + ': ' + (tags_src(n.get('mode', 'thread'), n.get('tag_style')) or '()'))
    r = n.get('retry')
    if n.get('attrs_retry') and r:
        if r.get('attempts') is not None:
            attrs.append(f"'attempts': {r['attempts']!r}")
        if r.get('delay') is not None:
            attrs.append(f"'delay': {r['delay']!r}")
        if r.get('exceptions') is not None:
            attrs.append("'exceptions': (" + ''.join(
                (f'rt.{e}, ' if e not in ('Exception', 'BaseException') else f'{e}, ') for e in r['exceptions']) + ')')
        if r.get('use_default'):
            attrs.append("'use_default': True")
    if attrs:
        args.append('attrs={' + ', '.join(attrs) + '}')
    if deps:
        args.append(deps)
    if n.get('start_of') and not n.get('no_additional_data'):
        args.append('additional_data=t.Optional[t.Any]')
    return f'{nid} = build_node({", ".join(args)})'


def render(prog, uniq=None):
    parts = [HEADER]
    if uniq is None:
        uniq = hashlib.sha1(json.dumps({k: v for k, v in prog.items() if k != 'tags'}, sort_keys=True,
                                       default=str).encode()).hexdigest()[:8]
    for nid in prog['order']:
        n = prog['nodes'][nid]
        if n.get('generic_of'):
            n = dict(n, _uniq=uniq)
        if n.get('raw_src'):
            parts.append(n['raw_src'])
        else:
            parts.append(node_src(n))
    for line in prog.get('post_src', []):
        parts.append(line)
    return '\n\n\n'.join(parts) + '\n'


def load(prog, name=None):
    _counter[0] += 1
    digest = hashlib.sha1(render(prog).encode()).hexdigest()[:12]
    modname = name or f'rvgen_{digest}_{_counter[0]}'
    # build_node registers generic classes by name in the engine's module: unique per materialisation
    src = render(prog, uniq=f'{digest[:6]}_{_counter[0]}')
    filename = f'<rvgen/{modname}.py>'
    linecache.cache[filename] = (len(src), None, src.splitlines(True), filename)
    mod = types.ModuleType(modname)
    mod.__file__ = filename
    sys.modules[modname] = mod
    from rv import rt as _rt
    _rt.PROGS[modname] = prog
    code = compile(src, filename, 'exec', dont_inherit=True)
    exec(code, mod.__dict__)
    return mod


def unload(mod):
    sys.modules.pop(mod.__name__, None)
    from rv import rt as _rt
    _rt.PROGS.pop(mod.__name__, None)
    linecache.cache.pop(getattr(mod, '__file__', ''), None)


def prog_hash(prog):
    return hashlib.sha1(json.dumps(prog, sort_keys=True, default=str).encode()).hexdigest()[:16]
