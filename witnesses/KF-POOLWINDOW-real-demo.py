"""KF-POOLWINDOW on a REAL loop and a real ThreadPoolExecutor(max_workers=1).

Two thread-mode sibling nodes: the first one occupies the only worker, the second one waits in the pool's queue.  The
caller is cancelled; chart.run() raises CancelledError into the caller's own frame.  At that moment the engine has only
ASKED its helper tasks to cancel: the queued job's concurrent future is cancelled one loop iteration later.  If the
worker becomes free before that iteration runs (here: the caller's except-block releases the first job and keeps the
loop thread busy for 0.3 s), the worker picks the queued job up and its node body starts AFTER run() has ended.

usage (from a checkout of the engine):  python /verif/witnesses/KF-POOLWINDOW-real-demo.py     exit 1 = window observed
"""
import asyncio
import os
import sys
import threading
import time
from concurrent.futures import ThreadPoolExecutor

sys.path.insert(0, os.getcwd())

from ml_pipeline_engine.chart import PipelineChart  # noqa: E402
from ml_pipeline_engine.dag_builders.annotation import build_dag  # noqa: E402
from ml_pipeline_engine.dag_builders.annotation.marks import Input  # noqa: E402
from ml_pipeline_engine.node import ProcessorBase  # noqa: E402
from ml_pipeline_engine.parallelism import threads_pool_registry  # noqa: E402

LOG = []
FIRST_RUNNING = threading.Event()
RELEASE_FIRST = threading.Event()
STATE = {'ended': None}


class Inp(ProcessorBase):
    async def process(self, x: int) -> int:
        return x


LOCK = threading.Lock()


def body(name, x):
    with LOCK:
        blocker = not FIRST_RUNNING.is_set()
        FIRST_RUNNING.set()
    LOG.append((name + (':start(occupies the worker)' if blocker else ':start(was queued)'), time.monotonic()))
    if blocker:
        RELEASE_FIRST.wait(5)
    return x


class First(ProcessorBase):
    def process(self, x: Input(Inp)) -> int:
        return body('first', x)


class Second(ProcessorBase):
    def process(self, x: Input(Inp)) -> int:
        return body('second', x)


class Out(ProcessorBase):
    async def process(self, a: Input(First), b: Input(Second)) -> int:
        return a + b


async def caller(chart):
    try:
        await chart.run(input_kwargs={'x': 1})
    except asyncio.CancelledError:
        STATE['ended'] = time.monotonic()       # run() has raised: the run is over for the caller
        RELEASE_FIRST.set()                      # the only worker becomes free ...
        time.sleep(0.3)                          # ... while this loop iteration is still busy
        raise


async def main():
    threads_pool_registry.register_pool_executor(ThreadPoolExecutor(max_workers=1))
    chart = PipelineChart('poolwindow', build_dag(input_node=Inp, output_node=Out))
    task = asyncio.ensure_future(caller(chart))
    while not FIRST_RUNNING.is_set():
        await asyncio.sleep(0.005)
    await asyncio.sleep(0.02)                    # the second job is in the pool's queue now
    task.cancel()
    try:
        await task
    except asyncio.CancelledError:
        pass
    await asyncio.sleep(0.2)
    late = [(n, t) for n, t in LOG if STATE['ended'] is not None and t > STATE['ended']]
    print('log:', [n for n, _ in LOG], 'started after run() ended:', [n for n, _ in late])
    return 1 if late else 0


if __name__ == '__main__':
    sys.exit(asyncio.run(main()))
